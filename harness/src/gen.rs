//! Game and profile generators (all choices come from the byte stream)
use crate::stream::Stream;
use crate::tree::{Info, Profile, T};
use std::collections::HashMap;

#[derive(Clone, Copy, Debug, PartialEq)]
pub enum Pay {
    SmallInt,
    Dyadic,
    Real,
    Scaled(f64),
    Zeroish,
    AllEqual,
}

#[derive(Clone, Debug)]
pub struct GenCfg {
    pub max_nodes: usize,
    pub max_depth: usize,
    /// relative weight of stopping at a terminal (out of ~16)
    pub term_weight: u32,
    /// insert single-outcome chance nodes and single-action decision nodes
    pub decorate: bool,
    /// only generic real payoffs and weights (for trajectory comparisons)
    pub generic: bool,
    /// allow the structured adversarial families
    pub families: bool,
    /// dyadic numbers only (exact arithmetic in the CLI comparison)
    pub dyadic: bool,
    /// chance weights that are integers or dyadic (exactly representable as Gambit rationals)
    pub rational_weights: bool,
}

impl GenCfg {
    pub fn small() -> Self {
        GenCfg {
            max_nodes: 40,
            max_depth: 6,
            term_weight: 3,
            decorate: true,
            generic: false,
            families: true,
            dyadic: false,
            rational_weights: false,
        }
    }
    pub fn medium() -> Self {
        GenCfg {
            max_nodes: 400,
            max_depth: 9,
            term_weight: 2,
            decorate: true,
            generic: false,
            families: true,
            dyadic: false,
            rational_weights: false,
        }
    }
    pub fn wide() -> Self {
        GenCfg {
            max_nodes: 600,
            max_depth: 7,
            term_weight: 1,
            decorate: true,
            generic: true,
            families: false,
            dyadic: false,
            rational_weights: false,
        }
    }
}

#[derive(Clone, Debug)]
pub struct Generated {
    pub tree: T,
    pub family: &'static str,
}

pub fn gen_game(s: &mut Stream, cfg: &GenCfg) -> Generated {
    if cfg.max_nodes >= 600 && s.chance(16) {
        // the configuration of the thread properties: one game in sixteen gives a player several
        // hundred infosets (a long chain, or many deals)
        return if s.bool() {
            let pay = pick_pay(s, cfg);
            let depth = 260 + ((s.u16() as usize * 440) >> 16);
            Generated { tree: chain_of(s, pay, depth), family: "long-chain" }
        } else {
            let mut c = cfg.clone();
            c.max_nodes = 100_000;
            Generated { tree: gen_shared_wide(s, &c), family: "shared-wide" }
        };
    }
    let fam = if cfg.families {
        s.weighted(&[20, 4, 2, 2, 2, 2, 2, 2, 2, 1])
    } else {
        0
    };
    if fam == 9 {
        return Generated { tree: gen_many_singles(s, cfg), family: "many-singles" };
    }
    match fam {
        0 => Generated {
            tree: gen_obs(s, cfg),
            family: "observation-model",
        },
        1 => Generated {
            tree: gen_matrix(s, cfg, false),
            family: "matrix",
        },
        2 => Generated {
            tree: gen_chain(s, cfg),
            family: "chain",
        },
        3 => Generated {
            tree: gen_shared_wide(s, cfg),
            family: "shared-wide",
        },
        4 => Generated {
            tree: gen_rare_chance(s, cfg),
            family: "rare-chance",
        },
        5 => Generated {
            tree: gen_matrix(s, cfg, true),
            family: "dominated-duplicated",
        },
        6 => Generated {
            tree: gen_one_player(s, cfg),
            family: "one-player",
        },
        7 => Generated {
            tree: gen_no_decision(s, cfg),
            family: "no-decision",
        },
        _ if cfg.dyadic => Generated {
            // the uniform deal over 6 or 12 outcomes is not dyadic
            tree: gen_matrix(s, cfg, false),
            family: "matrix",
        },
        _ => Generated {
            tree: gen_kuhn(s, cfg),
            family: "kuhn",
        },
    }
}

pub fn pick_pay(s: &mut Stream, cfg: &GenCfg) -> Pay {
    if cfg.dyadic {
        return if s.bool() { Pay::SmallInt } else { Pay::Dyadic };
    }
    if cfg.generic {
        return match s.weighted(&[6, 1, 1]) {
            0 => Pay::Real,
            1 => Pay::Scaled(1e-3),
            _ => Pay::Scaled(1e3),
        };
    }
    match s.weighted(&[8, 6, 10, 2, 2, 2, 2, 2, 1, 1]) {
        0 => Pay::SmallInt,
        1 => Pay::Dyadic,
        2 => Pay::Real,
        3 => Pay::Scaled(1e-6),
        4 => Pay::Scaled(1e6),
        5 => Pay::Scaled(37.5),
        6 => Pay::Zeroish,
        7 => Pay::AllEqual,
        8 => Pay::Scaled(1e-20),
        _ => Pay::Scaled(1e15),
    }
}

pub fn payoff(s: &mut Stream, pay: Pay) -> f64 {
    match pay {
        Pay::SmallInt => s.below(7) as f64 - 3.0,
        Pay::Dyadic => (s.below(33) as f64 - 16.0) / 8.0,
        Pay::Real => s.unit_generic() * 2.0 - 1.0,
        Pay::Scaled(c) => (s.unit_generic() * 2.0 - 1.0) * c,
        Pay::Zeroish => {
            if s.chance(64) {
                s.below(5) as f64 - 2.0
            } else {
                0.0
            }
        }
        Pay::AllEqual => 1.5,
    }
}

/// a payoff of the given kind from a hash instead of stream bytes: large families (hundreds of
/// levels or deals) would exhaust the stream and end in identical payoffs everywhere
pub fn payoff_h(pay: Pay, h: u64) -> f64 {
    let bytes = h.to_be_bytes();
    let mut s = Stream::new(&bytes);
    payoff(&mut s, pay)
}

#[derive(Clone, Copy, Debug, PartialEq)]
pub enum Wt {
    Int,
    Dyadic,
    Real,
    Extreme,
    /// ratios far beyond the precision of a double, subnormal weights (sums never overflow)
    Wild,
    /// a distribution that is normalised except for a relative error of 1e-15..1e-9
    NearOne,
}

pub fn pick_wt(s: &mut Stream, cfg: &GenCfg) -> Wt {
    if cfg.dyadic {
        return Wt::Dyadic;
    }
    if cfg.rational_weights {
        return if s.bool() { Wt::Int } else { Wt::Dyadic };
    }
    if cfg.generic {
        return Wt::Real;
    }
    match s.weighted(&[16, 8, 16, 4, 2, 3]) {
        0 => Wt::Int,
        1 => Wt::Dyadic,
        2 => Wt::Real,
        3 => Wt::Extreme,
        4 => Wt::Wild,
        _ => Wt::NearOne,
    }
}

pub fn weights(s: &mut Stream, wt: Wt, n: usize) -> Vec<f64> {
    match wt {
        Wt::Int => (0..n).map(|_| 1.0 + s.below(4) as f64).collect(),
        Wt::Dyadic => {
            // weights with a power of two total so that normalised probabilities are exact
            match n {
                1 => vec![1.0],
                2 => match s.below(3) {
                    0 => vec![1.0, 1.0],
                    1 => vec![1.0, 3.0],
                    _ => vec![0.75, 0.25],
                },
                3 => match s.below(2) {
                    0 => vec![2.0, 1.0, 1.0],
                    _ => vec![0.125, 0.125, 0.75],
                },
                4 => match s.below(2) {
                    0 => vec![1.0, 1.0, 1.0, 1.0],
                    _ => vec![0.5, 0.25, 0.125, 0.125],
                },
                _ => {
                    let mut v = vec![1.0; n];
                    // pad to a power of two total
                    let total = n.next_power_of_two();
                    v[0] += (total - n) as f64;
                    v
                }
            }
        }
        Wt::Real => (0..n).map(|_| 0.05 + s.unit_generic()).collect(),
        Wt::NearOne => {
            let raw: Vec<f64> = (0..n).map(|_| 0.05 + s.unit_generic()).collect();
            let tot: f64 = raw.iter().sum();
            let off = 1.0 + [1e-10, -3e-10, 4e-10, 1e-12, -1e-15, 9e-10][s.below(6)];
            raw.iter().map(|x| x / tot * off).collect()
        }
        Wt::Wild => {
            // absolute magnitudes; the largest is 1e200, so a sum of a few cannot overflow, and
            // the smallest are subnormal
            const A: [f64; 12] = [1.0, 3.0, 1e-310, 3e-310, 1e-300, 1e-30, 1e-18, 1e-17, 1e-15, 1e3, 1e100, 1e200];
            let base = s.below(12);
            (0..n).map(|i| if i == 0 || s.bool() { A[base] * [1.0, 3.0][s.below(2)] } else { A[s.below(12)] }).collect()
        }
        Wt::Extreme => (0..n)
            .map(|i| {
                if i == 0 {
                    1.0
                } else {
                    match s.below(3) {
                        0 => 1e-6,
                        1 => 1e-3,
                        _ => 1.0,
                    }
                }
            })
            .collect(),
    }
}

const ACTS: [[&str; 5]; 3] = [
    ["a", "b", "c", "d", "e"],
    ["x", "y", "z", "w", "v"],
    ["0", "1", "2", "3", "4"],
];

struct ObsGen<'s, 'a> {
    s: &'s mut Stream<'a>,
    nodes_left: isize,
    cfg: GenCfg,
    pay: Pay,
    wt: Wt,
    infoset_ids: [HashMap<Vec<u32>, usize>; 2],
    infoset_acts: [Vec<Vec<String>>; 2],
    chance_pool: Vec<(String, Vec<f64>)>,
    singles: [Vec<(String, String)>; 2],
}

fn gen_obs(s: &mut Stream, cfg: &GenCfg) -> T {
    let pay = pick_pay(s, cfg);
    let wt = pick_wt(s, cfg);
    let max_nodes = 1 + (s.u8() as usize * cfg.max_nodes) / 256;
    let mut g = ObsGen {
        s,
        nodes_left: max_nodes as isize,
        cfg: cfg.clone(),
        pay,
        wt,
        infoset_ids: Default::default(),
        infoset_acts: Default::default(),
        chance_pool: Vec::new(),
        singles: Default::default(),
    };
    let share = g.s.chance(64);
    let pick = g.s.u8() as usize;
    let mut tree = g.node(0, [Vec::new(), Vec::new()]);
    if share {
        // infoset names are per player: a forced move of one player may carry the name of a
        // decision of the other
        let info = Info::of(&tree);
        for p in 0..2 {
            let singles: Vec<String> = info.singles(p).map(|(k, _)| k.clone()).collect();
            let others: Vec<String> = info.multi(1 - p).map(|(k, _)| k.clone()).filter(|k| !info.infosets[p].contains_key(k)).collect();
            if !singles.is_empty() && !others.is_empty() {
                let from = singles[pick % singles.len()].clone();
                let to = others[(pick / 7) % others.len()].clone();
                fn rename(node: &mut T, p: usize, from: &str, to: &str) {
                    if let T::Player(q, name, _) = node {
                        if *q == p && name == from {
                            *name = to.to_string();
                        }
                    }
                    for c in node.children_mut() {
                        rename(c, p, from, to);
                    }
                }
                rename(&mut tree, p, &from, &to);
            }
        }
    }
    tree
}

impl ObsGen<'_, '_> {
    fn node(&mut self, depth: usize, st: [Vec<u32>; 2]) -> T {
        self.nodes_left -= 1;
        if self.nodes_left < 0 || depth >= self.cfg.max_depth {
            return T::Term(payoff(self.s, self.pay));
        }
        if self.cfg.decorate && self.s.chance(14) {
            // degenerate node that the library must collapse
            if self.s.bool() {
                let label = if self.s.bool() || self.chance_pool.is_empty() {
                    None
                } else {
                    // reuse of a multi-outcome label by a single-outcome node is a documented
                    // don't-care zone; use a dedicated label space instead
                    Some(format!("u{}", self.s.below(2)))
                };
                let w = [1.0, 0.5, 3.0][self.s.below(3)];
                let inner = self.node(depth + 1, st);
                return T::Chance(label, vec![(w, inner)]);
            } else {
                let p = self.s.below(2);
                let reuse = self.s.below(self.singles[p].len() + 1);
                let (name, act) = if reuse < self.singles[p].len() {
                    self.singles[p][reuse].clone()
                } else {
                    let fresh = (format!("s{}", self.singles[p].len()), format!("only{}", self.s.below(2)));
                    self.singles[p].push(fresh.clone());
                    fresh
                };
                let inner = self.node(depth + 1, st);
                return T::Player(p, name, vec![(act, inner)]);
            }
        }
        let tw = if depth == 0 { 1 } else { self.cfg.term_weight };
        match self.s.weighted(&[tw, 3, 5, 5]) {
            0 => T::Term(payoff(self.s, self.pay)),
            1 => {
                // chance node
                let pool = self.chance_pool.len();
                let pickd = self.s.below(pool + 2);
                let (label, wts) = if pickd == 0 {
                    let arity = 2 + self.s.weighted(&[6, 3, 1]);
                    (None, weights(self.s, self.wt, arity))
                } else if pickd <= pool {
                    let (l, w) = self.chance_pool[pickd - 1].clone();
                    // a common positive factor must not matter
                    let factor = if self.cfg.dyadic || self.s.bool() { 1.0 } else { 2.0 };
                    (Some(l), w.iter().map(|x| x * factor).collect())
                } else if pool < 4 {
                    let arity = 2 + self.s.weighted(&[6, 3, 1]);
                    let w = weights(self.s, self.wt, arity);
                    let l = format!("k{}", pool);
                    self.chance_pool.push((l.clone(), w.clone()));
                    (Some(l), w)
                } else {
                    let arity = 2 + self.s.weighted(&[6, 3, 1]);
                    (None, weights(self.s, self.wt, arity))
                };
                let label_code = match &label {
                    None => 255u32,
                    Some(l) => l[1..].parse::<u32>().unwrap(),
                };
                let modes = [self.s.below(3), self.s.below(3)];
                let mut outs = Vec::new();
                for (o, w) in wts.iter().enumerate() {
                    let mut next = st.clone();
                    for p in 0..2 {
                        match modes[p] {
                            0 => (),
                            1 => next[p].push((1 << 24) | (label_code << 8) | o as u32),
                            _ => next[p].push((1 << 24) | (label_code << 8) | (o as u32 / 2) | 0x80),
                        }
                    }
                    outs.push((*w, self.node(depth + 1, next)));
                }
                T::Chance(label, outs)
            }
            kind => {
                let p = kind - 2;
                let key = st[p].clone();
                let id = match self.infoset_ids[p].get(&key) {
                    Some(id) => *id,
                    None => {
                        let id = self.infoset_acts[p].len();
                        // (a game that has one wide infoset tends to get more of them)
                        let wide_weight = if self.infoset_acts.iter().any(|v| v.iter().any(|a| a.len() > 4)) { 12 } else { 1 };
                        let arity = match self.s.weighted(&[40, 20, 8, 4, wide_weight]) {
                            0 => 2,
                            1 => 3,
                            2 => 4,
                            3 => 1,
                            // rare wide infosets (counts around powers of two)
                            _ => [5, 8, 9, 10, 16, 17, 32, 33, 40, 65][self.s.below(10)],
                        };
                        let set = self.s.below(3);
                        let off = self.s.below(2);
                        let acts = if arity <= 4 {
                            (0..arity).map(|a| ACTS[set][a + off].to_string()).collect()
                        } else {
                            (0..arity).map(|a| format!("m{}", a)).collect()
                        };
                        self.infoset_acts[p].push(acts);
                        self.infoset_ids[p].insert(key, id);
                        id
                    }
                };
                let acts = self.infoset_acts[p][id].clone();
                let mode = self.s.below(3);
                let mut children = Vec::new();
                for (a, label) in acts.iter().enumerate() {
                    let mut next = st.clone();
                    next[p].push((3 << 24) | ((id as u32) << 8) | a as u32);
                    match mode {
                        0 => (),
                        1 => next[1 - p].push((2 << 24) | a as u32),
                        _ => next[1 - p].push((2 << 24) | (a as u32 / 2) | 0x80),
                    }
                    children.push((label.clone(), self.node(depth + 1, next)));
                }
                T::Player(p, format!("i{}", id), children)
            }
        }
    }
}

fn gen_matrix(s: &mut Stream, cfg: &GenCfg, degenerate: bool) -> T {
    let pay = pick_pay(s, cfg);
    let size = |s: &mut Stream| if s.chance(24) { [5, 8, 9, 10, 12, 16, 17, 32, 33, 40, 65][s.below(11)] } else { 2 + s.below(3) };
    let n = size(s);
    let m = size(s);
    let mut mat: Vec<Vec<f64>> = (0..n).map(|_| (0..m).map(|_| payoff(s, pay)).collect()).collect();
    if degenerate {
        // duplicate one row, dominate another
        let src = s.below(n);
        let dst = s.below(n);
        if src != dst {
            mat[dst] = mat[src].clone();
        }
        let dom = s.below(n);
        let by = s.below(n);
        if dom != by {
            mat[dom] = mat[by].iter().map(|x| x - 0.25).collect();
        }
    }
    let first = s.below(2);
    T::Player(
        first,
        "r".into(),
        (0..n)
            .map(|i| {
                (
                    format!("r{}", i),
                    T::Player(
                        1 - first,
                        "c".into(),
                        (0..m).map(|j| (format!("c{}", j), T::Term(mat[i][j]))).collect(),
                    ),
                )
            })
            .collect(),
    )
}

/// a player passes 63, 64, 65, 127, 128 or 129 forced moves (each its own single-action infoset)
/// before a little matrix game: counts around the word sizes of packed flags
fn gen_many_singles(s: &mut Stream, cfg: &GenCfg) -> T {
    let n = [63usize, 64, 65, 127, 128, 129][s.below(6)];
    let p = s.below(2);
    let mut node = gen_matrix(s, cfg, false);
    for k in (0..n).rev() {
        node = T::Player(p, format!("f{}", k), vec![("on".into(), node)]);
    }
    node
}

fn gen_chain(s: &mut Stream, cfg: &GenCfg) -> T {
    let pay = pick_pay(s, cfg);
    // long chains give a player hundreds of infosets (block and chunk sizes of parallel code)
    let depth = if cfg.max_nodes >= 400 && s.chance(64) {
        200 + ((s.u16() as usize * 500) >> 16)
    } else {
        1 + s.below(if cfg.max_nodes >= 400 { 200 } else { 16 })
    };
    chain_of(s, pay, depth)
}

fn chain_of(s: &mut Stream, pay: Pay, depth: usize) -> T {
    let hashed = depth > 150;
    let seed = if hashed { s.u32() as u64 } else { 0 };
    let mut node = T::Term(if hashed { payoff_h(pay, crate::stream::mix2(seed, depth as u64)) } else { payoff(s, pay) });
    for d in (0..depth).rev() {
        let p = d % 2;
        let stop = T::Term(if hashed { payoff_h(pay, crate::stream::mix2(seed, d as u64)) } else { payoff(s, pay) });
        node = T::Player(
            p,
            format!("n{}", d),
            if (if hashed { crate::stream::mix2(seed ^ 0x55, d as u64) & 1 == 1 } else { s.bool() }) {
                vec![("stop".into(), stop), ("go".into(), node)]
            } else {
                vec![("go".into(), node), ("stop".into(), stop)]
            },
        );
    }
    node
}

fn gen_shared_wide(s: &mut Stream, cfg: &GenCfg) -> T {
    let pay = pick_pay(s, cfg);
    let wt = pick_wt(s, cfg);
    let mut k = 2 + s.below(6);
    let mut a = 2 + s.below(3);
    let b = 2 + s.below(2);
    if cfg.max_nodes >= 100_000 || (cfg.max_nodes >= 400 && s.chance(40)) {
        // many deals (hundreds of infosets for the second mover) or a wide first mover
        if s.bool() {
            k = if cfg.max_nodes >= 100_000 && s.chance(32) { [4100, 5000][s.below(2)] } else { [40, 130, 150, 260, 300][s.below(5)] };
            a = 2;
        } else {
            a = [9, 10, 13, 17, 33, 40][s.below(6)];
        }
    }
    let p = s.below(2);
    let second_sees = s.bool();
    let many = k * a * b > 150;
    let pseed = s.u32() as u64;
    let w = if many && k > 8 {
        // the weight generators are written for a handful of outcomes
        (0..k).map(|o| 1.0 + (crate::stream::mix2(pseed ^ 0x77, o as u64) % 4) as f64).collect()
    } else {
        weights(s, wt, k)
    };
    T::Chance(
        None,
        (0..k)
            .map(|o| {
                (
                    w[o],
                    T::Player(
                        p,
                        "wide".into(),
                        (0..a)
                            .map(|i| {
                                (
                                    format!("a{}", i),
                                    T::Player(
                                        1 - p,
                                        if second_sees { format!("o{}", o) } else { "blind".into() },
                                        (0..b)
                                            .map(|j| {
                                                let v = if many { payoff_h(pay, crate::stream::mix2(pseed, ((o * 64 + i) * 8 + j) as u64)) } else { payoff(s, pay) };
                                                (format!("b{}", j), T::Term(v))
                                            })
                                            .collect(),
                                    ),
                                )
                            })
                            .collect(),
                    ),
                )
            })
            .collect(),
    )
}

fn gen_rare_chance(s: &mut Stream, cfg: &GenCfg) -> T {
    let common = gen_matrix(s, cfg, false);
    // the rare branch has large stakes and its own decisions
    // (in dyadic mode every derived number has to stay exact, also after a constant is subtracted)
    let pay_scale = [1.0, 128.0, 8192.0, 1099511627776.0, 1152921504606846976.0][s.below(if cfg.dyadic { 3 } else { 5 })];
    let mut stake = |s: &mut Stream| {
        if cfg.dyadic {
            pay_scale * (s.below(33) as f64 - 16.0) / 8.0
        } else {
            pay_scale * (s.unit_generic() - 0.5)
        }
    };
    let p = s.below(2);
    let rare = T::Player(
        p,
        "rare".into(),
        vec![
            ("l".into(), T::Term(stake(s))),
            (
                "r".into(),
                T::Player(
                    1 - p,
                    "rare".into(),
                    vec![("l".into(), T::Term(stake(s))), ("r".into(), T::Term(stake(s)))],
                ),
            ),
        ],
    );
    let (w_common, w_rare) = if cfg.dyadic || cfg.rational_weights {
        // exact, with a total of one
        let r = [1.0 / 1048576.0, 1.0 / 8192.0, 1.0 / 128.0][s.below(3)];
        (1.0 - r, r)
    } else {
        (1.0, [1e-6, 1e-4, 1e-2, 1e-12, 1e-17, 1e-18, 1e-30][s.below(7)])
    };
    if s.bool() {
        T::Chance(None, vec![(w_common, common), (w_rare, rare)])
    } else {
        T::Chance(None, vec![(w_rare, rare), (w_common, common)])
    }
}

fn gen_one_player(s: &mut Stream, cfg: &GenCfg) -> T {
    let pay = pick_pay(s, cfg);
    let wt = pick_wt(s, cfg);
    let p = s.below(2);
    let k = 2 + s.below(2);
    let w = weights(s, wt, k);
    let hidden = s.bool();
    T::Chance(
        Some("deal".into()),
        (0..k)
            .map(|o| {
                (
                    w[o],
                    T::Player(
                        p,
                        if hidden { "h".into() } else { format!("h{}", o) },
                        vec![
                            ("l".into(), T::Term(payoff(s, pay))),
                            (
                                "r".into(),
                                T::Player(
                                    p,
                                    if hidden { "g".into() } else { format!("g{}", o) },
                                    vec![
                                        ("l".into(), T::Term(payoff(s, pay))),
                                        ("r".into(), T::Term(payoff(s, pay))),
                                    ],
                                ),
                            ),
                        ],
                    ),
                )
            })
            .collect(),
    )
}

fn gen_no_decision(s: &mut Stream, cfg: &GenCfg) -> T {
    let pay = pick_pay(s, cfg);
    let wt = pick_wt(s, cfg);
    fn rec(s: &mut Stream, pay: Pay, wt: Wt, depth: usize) -> T {
        if depth == 0 || s.below(3) == 0 {
            return T::Term(payoff(s, pay));
        }
        match s.below(3) {
            0 => {
                let k = 1 + s.below(3);
                let w = weights(s, wt, k);
                T::Chance(None, (0..k).map(|o| (w[o], rec(s, pay, wt, depth - 1))).collect())
            }
            1 => T::Player(
                s.below(2),
                format!("solo{}", s.below(2)),
                vec![("only".into(), rec(s, pay, wt, depth - 1))],
            ),
            _ => {
                let k = 2;
                let w = weights(s, wt, k);
                T::Chance(
                    Some("coin".into()),
                    vec![(w[0], rec(s, pay, wt, depth - 1)), (w[1], rec(s, pay, wt, depth - 1))],
                )
            }
        }
    }
    // a shared label needs one weight vector: regenerate with memoised weights
    let mut tree = rec(s, pay, wt, 4);
    let mut first: Option<Vec<f64>> = None;
    fn fix(node: &mut T, first: &mut Option<Vec<f64>>) {
        if let T::Chance(Some(_), outs) = node {
            match first {
                None => *first = Some(outs.iter().map(|(w, _)| *w).collect()),
                Some(w) => {
                    for ((ow, _), nw) in outs.iter_mut().zip(w.iter()) {
                        *ow = *nw;
                    }
                }
            }
        }
        for c in node.children_mut() {
            fix(c, first);
        }
    }
    fix(&mut tree, &mut first);
    tree
}

/// Kuhn poker with n cards (n = 3 is the textbook game, value -1/18 for player one)
pub fn kuhn(n: usize, shared_label: bool) -> T {
    let mut outs = Vec::new();
    for i in 0..n {
        for j in 0..n {
            if i == j {
                continue;
            }
            let win = |amount: f64| if i > j { amount } else { -amount };
            let p2_after_bet = T::Player(
                1,
                format!("{}b", j),
                vec![("call".into(), T::Term(win(2.0))), ("fold".into(), T::Term(1.0))],
            );
            let p1_after_check_bet = T::Player(
                0,
                format!("{}cb", i),
                vec![("call".into(), T::Term(win(2.0))), ("fold".into(), T::Term(-1.0))],
            );
            let p2_after_check = T::Player(
                1,
                format!("{}c", j),
                vec![("bet".into(), p1_after_check_bet), ("check".into(), T::Term(win(1.0)))],
            );
            let root = T::Player(
                0,
                format!("{}", i),
                vec![("bet".into(), p2_after_bet), ("check".into(), p2_after_check)],
            );
            outs.push((1.0, root));
        }
    }
    T::Chance(if shared_label { Some("deal".into()) } else { None }, outs)
}

fn gen_kuhn(s: &mut Stream, _cfg: &GenCfg) -> T {
    let n = 3 + s.below(2);
    kuhn(n, s.bool())
}

// ---------------------------------------------------------------------------------------------
// profiles

pub fn gen_profile(s: &mut Stream, info: &Info) -> Profile {
    let mut prof: Profile = Default::default();
    let global = s.weighted(&[4, 1, 1, 1]);
    for p in 0..2 {
        for (name, acts) in info.multi(p) {
            let n = acts.len();
            let style = if global == 0 { s.weighted(&[2, 3, 3, 4, 1]) } else { global };
            let v: Vec<f64> = match style {
                0 => vec![1.0 / n as f64; n],
                1 => {
                    let hot = s.below(n);
                    (0..n).map(|i| if i == hot { 1.0 } else { 0.0 }).collect()
                }
                2 => {
                    // sparse: some exact zeros, at least one positive
                    let keep = s.below(n);
                    let mut w: Vec<f64> = (0..n)
                        .map(|i| if i == keep || s.bool() { 0.1 + s.unit() } else { 0.0 })
                        .collect();
                    let tot: f64 = w.iter().sum();
                    w.iter_mut().for_each(|x| *x /= tot);
                    w
                }
                3 => {
                    let mut w: Vec<f64> = (0..n).map(|_| 0.01 + s.unit()).collect();
                    let tot: f64 = w.iter().sum();
                    w.iter_mut().for_each(|x| *x /= tot);
                    w
                }
                _ => {
                    let tiny = s.below(n);
                    // down to subnormal probabilities
                    let eps = [1e-12, 1e-12, 1e-17, 1e-100, 1e-310, 5e-324][s.below(6)];
                    let mut w: Vec<f64> = (0..n).map(|i| if i == tiny { eps } else { 1.0 }).collect();
                    let tot: f64 = w.iter().sum();
                    w.iter_mut().for_each(|x| *x /= tot);
                    w
                }
            };
            prof[p].insert(name.clone(), v);
        }
    }
    prof
}
