//! Abstract game trees with string labels, owned by the harness
use cfr::{GameNode, IntoGameNode, PlayerNum};
use serde_json::{json, Value};
use std::collections::BTreeMap;

#[derive(Clone, Debug, PartialEq)]
pub enum T {
    Term(f64),
    Chance(Option<String>, Vec<(f64, T)>),
    Player(usize, String, Vec<(String, T)>),
}

/// adaptor handing a tree to the library
pub struct TN(pub T);

impl IntoGameNode for TN {
    type PlayerInfo = String;
    type Action = String;
    type ChanceInfo = String;
    type Outcomes = Vec<(f64, TN)>;
    type Actions = Vec<(String, TN)>;

    fn into_game_node(self) -> GameNode<Self> {
        match self.0 {
            T::Term(pay) => GameNode::Terminal(pay),
            T::Chance(info, outs) => {
                GameNode::Chance(info, outs.into_iter().map(|(w, t)| (w, TN(t))).collect())
            }
            T::Player(p, info, acts) => GameNode::Player(
                if p == 0 { PlayerNum::One } else { PlayerNum::Two },
                info,
                acts.into_iter().map(|(a, t)| (a, TN(t))).collect(),
            ),
        }
    }
}

/// Another presentation of the same tree to the library: children are handed over through
/// iterators whose size hints are not exact (the trait asks for `IntoIterator`, nothing more)
pub struct TL(pub T, pub u8);

pub struct Lazy<X> {
    inner: std::vec::IntoIter<X>,
    mode: u8,
}

impl<X> Iterator for Lazy<X> {
    type Item = X;

    fn next(&mut self) -> Option<X> {
        self.inner.next()
    }

    fn size_hint(&self) -> (usize, Option<usize>) {
        let len = self.inner.len();
        match self.mode {
            1 => (0, None),
            2 => (len.min(1), None),
            3 => (0, Some(len)),
            _ => (len, Some(len)),
        }
    }
}

impl IntoGameNode for TL {
    type PlayerInfo = String;
    type Action = String;
    type ChanceInfo = String;
    type Outcomes = Lazy<(f64, TL)>;
    type Actions = Lazy<(String, TL)>;

    fn into_game_node(self) -> GameNode<Self> {
        let mode = self.1;
        match self.0 {
            T::Term(pay) => GameNode::Terminal(pay),
            T::Chance(info, outs) => GameNode::Chance(
                info,
                Lazy { inner: outs.into_iter().map(|(w, t)| (w, TL(t, mode))).collect::<Vec<_>>().into_iter(), mode },
            ),
            T::Player(p, info, acts) => GameNode::Player(
                if p == 0 { PlayerNum::One } else { PlayerNum::Two },
                info,
                Lazy { inner: acts.into_iter().map(|(a, t)| (a, TL(t, mode))).collect::<Vec<_>>().into_iter(), mode },
            ),
        }
    }
}

pub fn pnum(p: usize) -> PlayerNum {
    if p == 0 {
        PlayerNum::One
    } else {
        PlayerNum::Two
    }
}

impl T {
    pub fn num_nodes(&self) -> usize {
        match self {
            T::Term(_) => 1,
            T::Chance(_, outs) => 1 + outs.iter().map(|(_, t)| t.num_nodes()).sum::<usize>(),
            T::Player(_, _, acts) => 1 + acts.iter().map(|(_, t)| t.num_nodes()).sum::<usize>(),
        }
    }

    pub fn depth(&self) -> usize {
        match self {
            T::Term(_) => 0,
            T::Chance(_, outs) => 1 + outs.iter().map(|(_, t)| t.depth()).max().unwrap_or(0),
            T::Player(_, _, acts) => 1 + acts.iter().map(|(_, t)| t.depth()).max().unwrap_or(0),
        }
    }

    pub fn children(&self) -> Vec<&T> {
        match self {
            T::Term(_) => vec![],
            T::Chance(_, outs) => outs.iter().map(|(_, t)| t).collect(),
            T::Player(_, _, acts) => acts.iter().map(|(_, t)| t).collect(),
        }
    }

    pub fn children_mut(&mut self) -> Vec<&mut T> {
        match self {
            T::Term(_) => vec![],
            T::Chance(_, outs) => outs.iter_mut().map(|(_, t)| t).collect(),
            T::Player(_, _, acts) => acts.iter_mut().map(|(_, t)| t).collect(),
        }
    }

    /// visit nodes in preorder
    pub fn walk<'a>(&'a self, f: &mut impl FnMut(&'a T)) {
        f(self);
        for c in self.children() {
            c.walk(f);
        }
    }

    /// mutable access to the node with the given preorder index
    pub fn node_mut(&mut self, index: usize) -> Option<&mut T> {
        fn rec<'a>(node: &'a mut T, index: &mut usize) -> Option<&'a mut T> {
            if *index == 0 {
                return Some(node);
            }
            *index -= 1;
            for c in node.children_mut() {
                if let Some(found) = rec(c, index) {
                    return Some(found);
                }
            }
            None
        }
        let mut index = index;
        rec(self, &mut index)
    }

    pub fn payoffs(&self) -> Vec<f64> {
        let mut res = Vec::new();
        self.walk(&mut |n| {
            if let T::Term(p) = n {
                res.push(*p)
            }
        });
        res
    }

    pub fn map_payoffs(&mut self, f: &impl Fn(f64) -> f64) {
        match self {
            T::Term(p) => *p = f(*p),
            _ => {
                for c in self.children_mut() {
                    c.map_payoffs(f)
                }
            }
        }
    }

    pub fn to_json(&self) -> Value {
        match self {
            T::Term(p) => json!({ "t": fjson(*p) }),
            T::Chance(info, outs) => json!({
                "c": info,
                "o": outs.iter().map(|(w, t)| json!([fjson(*w), t.to_json()])).collect::<Vec<_>>()
            }),
            T::Player(p, info, acts) => json!({
                "p": p + 1,
                "i": info,
                "a": acts.iter().map(|(a, t)| json!([a, t.to_json()])).collect::<Vec<_>>()
            }),
        }
    }

    /// some chance infoset label occurs at two multi-outcome chance nodes of one root-to-leaf path
    /// (legal: chance infosets need no recall; the sampled solvers then follow one draw at both)
    pub fn chance_label_repeats_on_path(&self) -> bool {
        fn rec<'a>(node: &'a T, path: &mut Vec<&'a str>) -> bool {
            match node {
                T::Term(_) => false,
                T::Chance(label, outs) => {
                    let mut pushed = false;
                    if outs.len() >= 2 {
                        if let Some(l) = label {
                            if path.contains(&l.as_str()) {
                                return true;
                            }
                            path.push(l.as_str());
                            pushed = true;
                        }
                    }
                    let res = outs.iter().any(|(_, t)| rec(t, path));
                    if pushed {
                        path.pop();
                    }
                    res
                }
                T::Player(_, _, acts) => acts.iter().any(|(_, t)| rec(t, path)),
            }
        }
        rec(self, &mut Vec::new())
    }

    /// the same game with every chance node whose label already occurs above it on its path made
    /// anonymous (its own infoset); evaluation and the unsampled method cannot tell the difference
    pub fn without_path_repeats(&self) -> T {
        fn rec(node: &T, path: &mut Vec<String>) -> T {
            match node {
                T::Term(p) => T::Term(*p),
                T::Chance(label, outs) => {
                    let mut label = label.clone();
                    let mut pushed = false;
                    if outs.len() >= 2 {
                        if let Some(l) = &label {
                            if path.contains(l) {
                                label = None;
                            } else {
                                path.push(l.clone());
                                pushed = true;
                            }
                        }
                    }
                    let outs = outs.iter().map(|(w, t)| (*w, rec(t, path))).collect();
                    if pushed {
                        path.pop();
                    }
                    T::Chance(label, outs)
                }
                T::Player(p, i, acts) => T::Player(*p, i.clone(), acts.iter().map(|(a, t)| (a.clone(), rec(t, path))).collect()),
            }
        }
        rec(self, &mut Vec::new())
    }

    /// compact single line rendering for samples
    pub fn brief(&self) -> String {
        match self {
            T::Term(p) => format!("{}", p),
            T::Chance(info, outs) => format!(
                "C{}[{}]",
                info.as_ref().map(|s| format!("<{}>", s)).unwrap_or_default(),
                outs.iter()
                    .map(|(w, t)| format!("{}:{}", w, t.brief()))
                    .collect::<Vec<_>>()
                    .join(" ")
            ),
            T::Player(p, info, acts) => format!(
                "P{}<{}>[{}]",
                p + 1,
                info,
                acts.iter()
                    .map(|(a, t)| format!("{}:{}", a, t.brief()))
                    .collect::<Vec<_>>()
                    .join(" ")
            ),
        }
    }
}

pub fn fjson(x: f64) -> Value {
    if x.is_finite() {
        json!(x)
    } else {
        json!(format!("{}", x))
    }
}

/// The decision structure of a tree as the harness understands it (independent of the library)
#[derive(Clone, Debug, Default)]
pub struct Info {
    /// per player: infoset -> action labels of its first node (all infosets, any arity)
    pub infosets: [BTreeMap<String, Vec<String>>; 2],
    /// per player: infoset -> number of nodes carrying it
    pub node_counts: [BTreeMap<String, usize>; 2],
    pub num_nodes: usize,
    pub num_terminals: usize,
    pub num_chance: usize,
    pub num_single_chance: usize,
    pub num_single_player: usize,
    pub max_arity: usize,
}

impl Info {
    pub fn of(tree: &T) -> Info {
        let mut info = Info::default();
        tree.walk(&mut |n| {
            info.num_nodes += 1;
            match n {
                T::Term(_) => info.num_terminals += 1,
                T::Chance(_, outs) => {
                    info.num_chance += 1;
                    if outs.len() == 1 {
                        info.num_single_chance += 1;
                    }
                }
                T::Player(p, name, acts) => {
                    if acts.len() == 1 {
                        info.num_single_player += 1;
                    }
                    info.max_arity = info.max_arity.max(acts.len());
                    info.infosets[*p]
                        .entry(name.clone())
                        .or_insert_with(|| acts.iter().map(|(a, _)| a.clone()).collect());
                    *info.node_counts[*p].entry(name.clone()).or_insert(0) += 1;
                }
            }
        });
        info
    }

    pub fn multi(&self, p: usize) -> impl Iterator<Item = (&String, &Vec<String>)> {
        self.infosets[p].iter().filter(|(_, a)| a.len() >= 2)
    }

    pub fn singles(&self, p: usize) -> impl Iterator<Item = (&String, &Vec<String>)> {
        self.infosets[p].iter().filter(|(_, a)| a.len() == 1)
    }

    pub fn num_multi(&self) -> usize {
        self.multi(0).count() + self.multi(1).count()
    }

    pub fn has_multinode_infoset(&self) -> bool {
        (0..2).any(|p| {
            self.infosets[p]
                .iter()
                .any(|(k, a)| a.len() >= 2 && self.node_counts[p][k] >= 2)
        })
    }
}

/// A behavioural profile over the multi-action infosets of both players
pub type Profile = [BTreeMap<String, Vec<f64>>; 2];

pub fn uniform_profile(info: &Info) -> Profile {
    let mut prof: Profile = Default::default();
    for p in 0..2 {
        for (name, acts) in info.multi(p) {
            prof[p].insert(name.clone(), vec![1.0 / acts.len() as f64; acts.len()]);
        }
    }
    prof
}

pub fn profile_json(prof: &Profile) -> Value {
    json!([prof[0], prof[1]])
}

/// Remove single-outcome chance nodes and single-action decision nodes (what the library
/// documents as collapsing), normalise chance weights.
pub fn collapse(tree: &T) -> T {
    match tree {
        T::Term(p) => T::Term(*p),
        T::Chance(info, outs) => {
            if outs.len() == 1 {
                collapse(&outs[0].1)
            } else {
                let total: f64 = outs.iter().map(|(w, _)| w).sum();
                T::Chance(
                    info.clone(),
                    outs.iter().map(|(w, t)| (w / total, collapse(t))).collect(),
                )
            }
        }
        T::Player(p, info, acts) => {
            if acts.len() == 1 {
                collapse(&acts[0].1)
            } else {
                T::Player(
                    *p,
                    info.clone(),
                    acts.iter().map(|(a, t)| (a.clone(), collapse(t))).collect(),
                )
            }
        }
    }
}
