//! Driver for the command line program: the harness generates an abstract constant-sum game and
//! serialises it itself (JSON DSL and Gambit .efg), so no second parser is needed as an oracle.
use crate::stream::Stream;
use crate::tree::{Info, Profile, T};
use serde_json::Value;
use std::collections::BTreeMap;
use std::io::Write;
use std::path::PathBuf;
use std::process::{Command, Stdio};
use std::sync::atomic::{AtomicU64, Ordering};
use std::time::{Duration, Instant};

pub fn cli_bin() -> String {
    format!("{}/target/cli/release/cfr", crate::runner::verif_dir())
}

pub fn tmp_dir() -> String {
    format!("{}/target/tmp", crate::runner::verif_dir())
}

/// Sort actions by label; chance outcomes keep their order (their file names are o0, o1, ...).
/// This is the order both readers of the program produce.
pub fn sorted(tree: &T) -> T {
    match tree {
        T::Term(p) => T::Term(*p),
        T::Chance(l, outs) => T::Chance(l.clone(), outs.iter().map(|(w, t)| (*w, sorted(t))).collect()),
        T::Player(p, i, acts) => {
            let mut acts: Vec<(String, T)> = acts.iter().map(|(a, t)| (a.clone(), sorted(t))).collect();
            acts.sort_by(|a, b| a.0.cmp(&b.0));
            T::Player(*p, i.clone(), acts)
        }
    }
}

/// rename some infosets and actions to labels that need escaping
pub fn fancy_names(s: &mut Stream, tree: &mut T) {
    fn fancy(name: &str, kind: usize) -> String {
        match kind {
            0 => name.to_string(),
            1 => format!("{} x", name),
            2 => format!("{}\"q\"", name),
            _ => format!("{}\\b", name),
        }
    }
    let ikind = s.below(4);
    let akind = s.below(4);
    fn rec(node: &mut T, ikind: usize, akind: usize) {
        match node {
            T::Term(_) => (),
            T::Chance(_, outs) => outs.iter_mut().for_each(|(_, t)| rec(t, ikind, akind)),
            T::Player(_, name, acts) => {
                *name = fancy(name, ikind);
                for (a, t) in acts.iter_mut() {
                    *a = fancy(a, akind);
                    rec(t, ikind, akind);
                }
            }
        }
    }
    rec(tree, ikind, akind);
}

fn json_str(text: &str) -> String {
    serde_json::to_string(text).unwrap()
}

fn json_num(x: f64) -> String {
    serde_json::to_string(&x).unwrap()
}

/// JSON DSL document: the text of `json_node` with stream-chosen insignificant whitespace around
/// it (JSON allows whitespace before and after the top-level value)
pub fn to_json_text(tree: &T, s: &mut Stream) -> String {
    let body = json_node(tree, s);
    let lead = ["", "", "\n", "  ", "\r\n\t ", " \n\n"][s.below(6)];
    let trail = ["", "\n", " \n", "\n\n\t"][s.below(4)];
    format!("{}{}{}", lead, body, trail)
}

/// JSON DSL text; map keys are written in a stream-chosen order (the program sorts by name)
pub fn json_node(tree: &T, s: &mut Stream) -> String {
    match tree {
        T::Term(p) => format!("{{\"terminal\": {}}}", json_num(*p)),
        T::Chance(label, outs) => {
            let mut items: Vec<String> = outs
                .iter()
                .enumerate()
                .map(|(i, (w, t))| {
                    let state = json_node(t, s);
                    if s.bool() {
                        format!("{}: {{\"prob\": {}, \"state\": {}}}", json_str(&format!("o{}", i)), json_num(*w), state)
                    } else {
                        format!("{}: {{\"state\": {}, \"prob\": {}}}", json_str(&format!("o{}", i)), state, json_num(*w))
                    }
                })
                .collect();
            shuffle(s, &mut items);
            let info = match label {
                Some(l) => format!("\"infoset\": {}, ", json_str(l)),
                None => {
                    if s.chance(32) {
                        "\"infoset\": null, ".to_string()
                    } else {
                        String::new()
                    }
                }
            };
            format!("{{\"chance\": {{{}\"outcomes\": {{{}}}}}}}", info, items.join(", "))
        }
        T::Player(p, name, acts) => {
            let mut items: Vec<String> = acts.iter().map(|(a, t)| format!("{}: {}", json_str(a), json_node(t, s))).collect();
            shuffle(s, &mut items);
            let mut fields = vec![
                format!("\"player_one\": {}", if *p == 0 { "true" } else { "false" }),
                format!("\"infoset\": {}", json_str(name)),
                format!("\"actions\": {{{}}}", items.join(", ")),
            ];
            shuffle(s, &mut fields);
            format!("{{\"player\": {{{}}}}}", fields.join(", "))
        }
    }
}

/// how deeply the JSON DSL text of a tree nests objects (a player node adds 3 levels, a chance
/// node 4); serde_json refuses documents nested deeper than 128
pub fn json_nesting(tree: &T) -> usize {
    match tree {
        T::Term(_) => 1,
        T::Chance(_, outs) => 4 + outs.iter().map(|(_, t)| json_nesting(t)).max().unwrap_or(0),
        T::Player(_, _, acts) => 3 + acts.iter().map(|(_, t)| json_nesting(t)).max().unwrap_or(0),
    }
}

pub fn shuffle<X>(s: &mut Stream, items: &mut Vec<X>) {
    let n = items.len();
    for i in (1..n).rev() {
        let j = s.below(i + 1);
        items.swap(i, j);
    }
}

pub fn efg_label(text: &str) -> String {
    let mut res = String::from("\"");
    for c in text.chars() {
        if c == '"' || c == '\\' {
            res.push('\\');
        }
        res.push(c);
    }
    res.push('"');
    res
}

/// exact textual forms of a dyadic / integral number accepted by the Gambit grammar
pub fn efg_num(x: f64, s: &mut Stream) -> String {
    if x.fract() == 0.0 && x.abs() < 1e15 {
        match s.below(4) {
            0 => format!("{}", x as i64),
            1 => format!("{}.0", x as i64),
            2 => format!("{}/1", x as i64),
            _ => format!("{}", x as i64),
        }
    } else {
        // dyadic: numerator / power of two
        let mut den = 1.0f64;
        let mut num = x;
        let mut k = 0;
        while num.fract() != 0.0 && k < 60 {
            num *= 2.0;
            den *= 2.0;
            k += 1;
        }
        if num.fract() == 0.0 && num.abs() < 1e15 && s.bool() {
            format!("{}/{}", num as i64, den as i64)
        } else {
            // Rust prints the shortest decimal that round-trips, never an exponent
            format!("{}", x)
        }
    }
}

/// x = mantissa * 2^exponent exactly (x positive and finite)
fn decompose(x: f64) -> (i128, i32) {
    let bits = x.to_bits();
    let exp_bits = ((bits >> 52) & 0x7ff) as i32;
    let frac = (bits & ((1u64 << 52) - 1)) as i128;
    let (mut m, mut e) = if exp_bits == 0 { (frac, -1074) } else { (frac | (1i128 << 52), exp_bits - 1075) };
    while m != 0 && m & 1 == 0 {
        m >>= 1;
        e += 1;
    }
    (m, e)
}

/// n / 2^k written as an exact decimal (k <= 24, 0 <= n <= 2^k)
fn exact_decimal(n: i128, k: u32) -> String {
    let scaled = n * 5i128.pow(k);
    let digits = format!("{:0width$}", scaled, width = k as usize + 1);
    let (int, frac) = digits.split_at(digits.len() - k as usize);
    let frac = frac.trim_end_matches('0');
    if frac.is_empty() {
        int.to_string()
    } else {
        format!("{}.{}", int, frac)
    }
}

fn gcd(a: i128, b: i128) -> i128 {
    if b == 0 {
        a.abs().max(1)
    } else {
        gcd(b, a % b)
    }
}

#[derive(Clone, Debug, Default)]
pub struct EfgOpts {
    /// the unit payoffs are stated in (interior amounts are multiples of half a unit); 0 means 1
    pub unit: f64,
    pub constant: f64,
    pub interior: bool,
    pub share_outcomes: bool,
    pub unnamed_fraction: u32,
    /// chance outcome labels may be empty or repeated (only for files that are to encode the tree
    /// outcome by outcome: the reader orders outcomes by label, then probability, so with repeated
    /// labels a deliberately permuted weight list would no longer be a violation)
    pub free_chance_labels: bool,
}

#[derive(Clone, Debug)]
pub struct EfgLine {
    pub kind: char,
    pub player: usize,
    pub infoset: u64,
    pub name: Option<String>,
    pub text: String,
    /// number of children (the nodes follow in preorder)
    pub arity: usize,
    /// outcome carried by the node (0 = none)
    pub outcome: u64,
    /// the node's line ends with the payoff list of its outcome
    pub has_pays: bool,
}

pub struct EfgText {
    pub text: String,
    pub header: String,
    pub lines: Vec<EfgLine>,
    /// printed (library) infoset name per player and tree infoset name
    pub printed: [BTreeMap<String, String>; 2],
    pub interior_outcomes: usize,
    /// interior references to an outcome that another node carries as well
    pub shared_interior_outcomes: usize,
    /// outcome numbers carried by interior nodes
    pub interior_outcome_numbers: Vec<u64>,
    /// payoffs (player one, player two) of every outcome number of the file
    pub outcomes: BTreeMap<u64, (f64, f64)>,
    pub unnamed_infosets: usize,
}

struct EfgCtx<'s, 'a> {
    s: &'s mut Stream<'a>,
    lines: Vec<String>,
    meta: Vec<EfgLine>,
    chance_ids: BTreeMap<String, u64>,
    next_chance: u64,
    info_ids: [BTreeMap<String, (u64, bool)>; 2],
    named_written: [BTreeMap<String, bool>; 2],
    next_outcome: u64,
    shared_outcomes: BTreeMap<(u64, u64), (u64, String)>,
    opts: EfgOpts,
    /// derived from the tree (not from the stream): picks the spelling of chance outcome labels
    salt: u64,
    interior: usize,
    /// outcomes written so far that an interior node may refer to again: (number, u1, u2, payoff text, written at a terminal)
    pool: Vec<(u64, f64, f64, String, bool)>,
    /// every interior reference to a non-null outcome: (number, name allowed, defined by an interior node)
    slots: Vec<Slot>,
    outcome_table: BTreeMap<u64, (f64, f64)>,
    shared_interior: usize,
}

struct Slot {
    num: u64,
    allow_name: bool,
    /// the outcome's payoffs are written at a terminal anyway (a reference needs none)
    terminal_outcome: bool,
    pay: String,
}

/// Gambit text of the constant-sum game (u1 = tree payoff, u2 = constant - u1)
pub fn to_efg_text(tree: &T, opts: &EfgOpts, s: &mut Stream) -> EfgText {
    let info = Info::of(tree);
    let mut ctx = EfgCtx {
        s,
        lines: Vec::new(),
        meta: Vec::new(),
        chance_ids: BTreeMap::new(),
        next_chance: 1,
        info_ids: Default::default(),
        named_written: Default::default(),
        next_outcome: 1,
        shared_outcomes: BTreeMap::new(),
        opts: opts.clone(),
        salt: {
            let mut bytes: Vec<u8> = (tree.num_nodes() as u64).to_le_bytes().to_vec();
            for p in tree.payoffs().iter().take(8) {
                bytes.extend_from_slice(&p.to_bits().to_le_bytes());
            }
            crate::stream::hash_bytes(&bytes)
        },
        interior: 0,
        pool: Vec::new(),
        slots: Vec::new(),
        outcome_table: BTreeMap::new(),
        shared_interior: 0,
    };
    // infoset numbers (arbitrary distinct positive numbers) and whether the infoset is named
    for p in 0..2 {
        let mut numbers: Vec<u64> = (1..=info.infosets[p].len() as u64).map(|k| 100 + k * 3 + ctx.s.below(3) as u64).collect();
        shuffle(ctx.s, &mut numbers);
        for (name, num) in info.infosets[p].keys().zip(numbers.into_iter()) {
            let named = !ctx.s.chance(ctx.opts.unnamed_fraction);
            ctx.info_ids[p].insert(name.clone(), (num, named));
        }
    }
    efg_node(tree, &mut ctx, 0.0, 0.0);
    let mut printed: [BTreeMap<String, String>; 2] = Default::default();
    let mut unnamed = 0;
    for p in 0..2 {
        for (name, (num, named)) in ctx.info_ids[p].iter() {
            if *named {
                printed[p].insert(name.clone(), name.clone());
            } else {
                unnamed += 1;
                printed[p].insert(name.clone(), num.to_string());
            }
        }
    }
    let header = format!(
        "EFG 2 R {} {{ {} {} }}{}",
        efg_label("generated game"),
        efg_label("one"),
        efg_label("two"),
        if ctx.s.bool() { format!("\n{}", efg_label("a comment")) } else { String::new() }
    );
    let sep = if ctx.s.bool() { "\n" } else { " " };
    // Resolve the interior outcome references. An outcome's payoffs need to be written at one of
    // the nodes that carry it; the others may give the number alone (before or after that node),
    // or repeat the identical payoff list.
    let mut by_num: BTreeMap<u64, Vec<usize>> = BTreeMap::new();
    for (k, slot) in ctx.slots.iter().enumerate() {
        by_num.entry(slot.num).or_default().push(k);
    }
    let mut slot_text: Vec<String> = vec![String::new(); ctx.slots.len()];
    for (num, ks) in by_num.iter() {
        let terminal = ctx.slots[ks[0]].terminal_outcome;
        let definer = if terminal { usize::MAX } else { ks[ctx.s.below(ks.len().min(256))] };
        for k in ks {
            let slot = &ctx.slots[*k];
            let name = if slot.allow_name && !terminal && ctx.s.bool() { format!(" {}", efg_label("bonus")) } else { String::new() };
            slot_text[*k] = if *k == definer || ctx.s.chance(64) {
                format!("{}{} {}", num, name, slot.pay)
            } else {
                format!("{}{}", num, name)
            };
        }
    }
    let slot_of = |line: &str| -> Option<(usize, usize, usize)> {
        let a = line.find("@@")?;
        let rest = &line[a + 2..];
        let b = rest.find("@@")?;
        Some((rest[..b].parse().ok()?, a, a + 2 + b + 2))
    };
    let mut lines: Vec<String> = Vec::new();
    for (line, m) in ctx.lines.iter().zip(ctx.meta.iter_mut()) {
        let text = match slot_of(line) {
            None => line.clone(),
            Some((k, a, b)) => {
                m.outcome = ctx.slots[k].num;
                m.has_pays = slot_text[k].contains('{');
                format!("{}{}{}", &line[..a], slot_text[k], &line[b..])
            }
        };
        m.text = text.clone();
        lines.push(text);
    }
    let lead = ["", "", "\n", " \n  "][ctx.s.below(4)];
    let trail = ["\n", "\n", "", "\n\n "][ctx.s.below(4)];
    EfgText {
        text: format!("{}{}\n{}{}", lead, header, lines.join(sep), trail),
        header: header.clone(),
        lines: ctx.meta.clone(),
        printed,
        interior_outcomes: ctx.interior,
        shared_interior_outcomes: ctx.shared_interior,
        interior_outcome_numbers: ctx.slots.iter().map(|sl| sl.num).collect(),
        outcomes: ctx.outcome_table.clone(),
        unnamed_infosets: unnamed,
    }
}

fn efg_payoffs(ctx: &mut EfgCtx, a: f64, b: f64) -> String {
    let x = efg_num(a, ctx.s);
    let y = efg_num(b, ctx.s);
    if ctx.s.bool() {
        format!("{{ {}, {} }}", x, y)
    } else {
        format!("{{ {} {} }}", x, y)
    }
}

/// `acc1/acc2`: payoffs already handed out on the path by interior outcomes
fn efg_node(node: &T, ctx: &mut EfgCtx, acc1: f64, acc2: f64) {
    // an interior outcome: a dyadic amount for each player
    // (the pinned grammar has no outcome name on chance nodes)
    let interior = |ctx: &mut EfgCtx, allow_name: bool| -> (String, f64, f64) {
        if ctx.opts.interior && ctx.s.chance(64) {
            ctx.interior += 1;
            if !ctx.pool.is_empty() && ctx.s.chance(96) {
                // an outcome some earlier node carries already
                let (num, d1, d2, pay, terminal_outcome) = ctx.pool[ctx.s.below(ctx.pool.len().min(256))].clone();
                ctx.shared_interior += 1;
                ctx.slots.push(Slot { num, allow_name, terminal_outcome, pay });
                return (format!("@@{}@@", ctx.slots.len() - 1), d1, d2);
            }
            let unit = if ctx.opts.unit == 0.0 { 1.0 } else { ctx.opts.unit };
            let d1 = (ctx.s.below(9) as f64 - 4.0) / 2.0 * unit;
            let d2 = (ctx.s.below(9) as f64 - 4.0) / 2.0 * unit;
            let num = ctx.next_outcome;
            ctx.next_outcome += 1;
            let pay = efg_payoffs(ctx, d1, d2);
            ctx.outcome_table.insert(num, (d1, d2));
            ctx.pool.push((num, d1, d2, pay.clone(), false));
            ctx.slots.push(Slot { num, allow_name, terminal_outcome: false, pay });
            (format!("@@{}@@", ctx.slots.len() - 1), d1, d2)
        } else {
            ("0".to_string(), 0.0, 0.0)
        }
    };
    match node {
        T::Term(u1) => {
            let l1 = *u1 - acc1;
            let l2 = (ctx.opts.constant - *u1) - acc2;
            let key = (l1.to_bits(), l2.to_bits());
            // an outcome shared by number must repeat textually identical payoffs (the decimal and
            // the rational spelling of one double are different rationals)
            let (num, pay) = if ctx.opts.share_outcomes {
                match ctx.shared_outcomes.get(&key) {
                    Some((n, text)) => (*n, text.clone()),
                    None => {
                        let n = ctx.next_outcome;
                        ctx.next_outcome += 1;
                        let text = efg_payoffs(ctx, l1, l2);
                        ctx.shared_outcomes.insert(key, (n, text.clone()));
                        let unit = if ctx.opts.unit == 0.0 { 1.0 } else { ctx.opts.unit };
                        if l1.abs() <= 4.0 * unit && l2.abs() <= 4.0 * unit {
                            ctx.pool.push((n, l1, l2, text.clone(), true));
                        }
                        (n, text)
                    }
                }
            } else {
                let n = ctx.next_outcome;
                ctx.next_outcome += 1;
                (n, efg_payoffs(ctx, l1, l2))
            };
            let name = if ctx.opts.share_outcomes { String::new() } else if ctx.s.bool() { format!(" {}", efg_label("leaf")) } else { String::new() };
            ctx.outcome_table.insert(num, (l1, l2));
            ctx.lines.push(format!("t {} {}{} {}", efg_label(""), num, name, pay));
            ctx.meta.push(EfgLine { kind: 't', player: 0, infoset: 0, name: None, text: ctx.lines.last().unwrap().clone(), arity: 0, outcome: num, has_pays: true });
        }
        T::Chance(label, outs) => {
            let num = match label {
                Some(l) => match ctx.chance_ids.get(l) {
                    Some(n) => *n,
                    None => {
                        let n = ctx.next_chance;
                        ctx.next_chance += 1;
                        ctx.chance_ids.insert(l.clone(), n);
                        n
                    }
                },
                None => {
                    let n = ctx.next_chance;
                    ctx.next_chance += 1;
                    n
                }
            };
            // every finite f64 is an integer times a power of two, so the probabilities can be
            // written as exact rationals n_i / N that sum to one
            let parts: Vec<(i128, i32)> = outs.iter().map(|(w, _)| if *w > 0.0 && w.is_finite() { decompose(*w) } else { (1, 0) }).collect();
            let min_exp = parts.iter().map(|(_, e)| *e).min().unwrap_or(0);
            let ints: Vec<i128> = parts.iter().map(|(m, e)| m << (e - min_exp) as u32).collect();
            let total: i128 = ints.iter().sum();
            let dyadic_total = total.count_ones() == 1;
            let log_total = total.trailing_zeros();
            let decimal = dyadic_total && log_total <= 24 && ctx.s.bool();
            let valid_weights = !outs.is_empty() && outs.iter().all(|(w, _)| *w > 0.0 && w.is_finite());
            let label_style = if ctx.opts.free_chance_labels { crate::stream::mix2(ctx.salt, num) % 4 } else { 0 };
            let probs: Vec<String> = outs
                .iter()
                .enumerate()
                .map(|(i, (w, _))| {
                    let p = if !valid_weights {
                        // corrupted weights (C17) are written as they are
                        format!("{}", w)
                    } else if decimal {
                        // n / 2^k = n 5^k / 10^k is an exact, terminating decimal
                        exact_decimal(ints[i], log_total)
                    } else {
                        let g = gcd(ints[i], total);
                        if ctx.s.bool() {
                            format!("{}/{}", ints[i] / g, total / g)
                        } else {
                            format!("{}/{}", ints[i], total)
                        }
                    };
                    // Gambit identifies the outcomes of a chance node by position; their labels
                    // are free text and need not differ: a quarter of the chance infosets leave
                    // them all empty, a quarter name them in pairs
                    let label = match label_style {
                        2 => String::new(),
                        3 => format!("o{}", i / 2),
                        _ => format!("o{}", i),
                    };
                    format!("{} {}", efg_label(&label), p)
                })
                .collect();
            // The reader orders the outcomes of a chance node by (label, probability), so the member
            // nodes of a chance infoset may list them in different orders - also when labels repeat
            // or are empty, where only the probabilities tell the outcomes apart. Half of the chance
            // nodes are written in an order of their own (derived from a hash, not from the stream,
            // so that older replay inputs decode to the same game).
            let mut order: Vec<usize> = (0..outs.len()).collect();
            let h0 = crate::stream::mix2(ctx.salt ^ 0x5eed_0c15, ctx.lines.len() as u64);
            if ctx.opts.free_chance_labels && valid_weights && h0 & 1 == 0 {
                let mut h = h0;
                for i in (1..order.len()).rev() {
                    h = crate::stream::mix2(h, i as u64);
                    order.swap(i, (h >> 8) as usize % (i + 1));
                }
            }
            let listed: Vec<&str> = order.iter().map(|i| probs[*i].as_str()).collect();
            let (outcome, d1, d2) = interior(ctx, false);
            ctx.lines.push(format!("c {} {} {{ {} }} {}", efg_label(""), num, listed.join(" "), outcome));
            ctx.meta.push(EfgLine { kind: 'c', player: 0, infoset: num, name: None, text: ctx.lines.last().unwrap().clone(), arity: outs.len(), outcome: 0, has_pays: false });
            for i in order {
                efg_node(&outs[i].1, ctx, acc1 + d1, acc2 + d2);
            }
        }
        T::Player(p, name, acts) => {
            let (num, named) = ctx.info_ids[*p][name];
            let first = !ctx.named_written[*p].contains_key(name);
            let write_name = named && (first || ctx.s.bool());
            ctx.named_written[*p].insert(name.clone(), true);
            // member nodes may list their actions in any order
            let mut order: Vec<usize> = (0..acts.len()).collect();
            shuffle(ctx.s, &mut order);
            let labels: Vec<String> = order.iter().map(|i| efg_label(&acts[*i].0)).collect();
            let (outcome, d1, d2) = interior(ctx, true);
            ctx.lines.push(format!(
                "p {} {} {}{} {{ {} }} {}",
                efg_label(""),
                p + 1,
                num,
                if write_name { format!(" {}", efg_label(name)) } else { String::new() },
                labels.join(" "),
                outcome
            ));
            ctx.meta.push(EfgLine {
                kind: 'p',
                player: *p,
                infoset: num,
                name: if write_name { Some(name.clone()) } else { None },
                text: ctx.lines.last().unwrap().clone(),
                arity: acts.len(),
                outcome: 0,
                has_pays: false,
            });
            for i in order {
                efg_node(&acts[i].1, ctx, acc1 + d1, acc2 + d2);
            }
        }
    }
}

// ---------------------------------------------------------------------------------------------
// process driver

pub struct Ran {
    pub code: Option<i32>,
    pub stdout: String,
    pub stderr: String,
    pub timed_out: bool,
}

static COUNTER: AtomicU64 = AtomicU64::new(0);

pub fn tmp_path(ext: &str) -> PathBuf {
    let _ = std::fs::create_dir_all(tmp_dir());
    let n = COUNTER.fetch_add(1, Ordering::SeqCst);
    PathBuf::from(tmp_dir()).join(format!("case-{}-{}.{}", std::process::id(), n, ext))
}

pub fn run_cli(args: &[String], stdin: Option<&str>) -> Ran {
    let mut cmd = Command::new(cli_bin());
    cmd.args(args)
        .env_clear()
        .env("RUST_BACKTRACE", "0")
        .stdin(if stdin.is_some() { Stdio::piped() } else { Stdio::null() })
        .stdout(Stdio::piped())
        .stderr(Stdio::piped());
    let mut child = match cmd.spawn() {
        Ok(c) => c,
        Err(e) => {
            return Ran {
                code: None,
                stdout: String::new(),
                stderr: format!("spawn failed: {}", e),
                timed_out: false,
            }
        }
    };
    // Both output pipes are drained by their own threads from the start and stdin is fed by a
    // third: the program may write a diagnostic larger than a pipe buffer (its parse errors quote
    // the rest of the file), and would block on it for ever if nobody read while we wait
    use std::io::Read;
    let feeder = stdin.map(|text| {
        let mut pipe = child.stdin.take().unwrap();
        let data = text.as_bytes().to_vec();
        std::thread::spawn(move || {
            let _ = pipe.write_all(&data);
        })
    });
    let mut out_pipe = child.stdout.take().unwrap();
    let mut err_pipe = child.stderr.take().unwrap();
    let out_reader = std::thread::spawn(move || {
        let mut buf = Vec::new();
        let _ = out_pipe.read_to_end(&mut buf);
        buf
    });
    let err_reader = std::thread::spawn(move || {
        let mut buf = Vec::new();
        let _ = err_pipe.read_to_end(&mut buf);
        buf
    });
    let start = Instant::now();
    let mut timed_out = false;
    let mut status = None;
    loop {
        match child.try_wait() {
            Ok(Some(st)) => {
                status = Some(st);
                break;
            }
            Ok(None) => {
                if start.elapsed() > Duration::from_secs(60) {
                    let _ = child.kill();
                    status = child.wait().ok();
                    timed_out = true;
                    break;
                }
                std::thread::sleep(Duration::from_millis(2));
            }
            Err(_) => break,
        }
    }
    if let Some(f) = feeder {
        let _ = f.join();
    }
    let stdout = out_reader.join().unwrap_or_default();
    let stderr = err_reader.join().unwrap_or_default();
    Ran {
        code: status.and_then(|s| s.code()),
        stdout: String::from_utf8_lossy(&stdout).to_string(),
        stderr: String::from_utf8_lossy(&stderr).to_string(),
        timed_out,
    }
}

#[derive(Clone, Debug)]
pub struct Printed {
    pub regret: f64,
    pub util: [f64; 2],
    pub regrets: [f64; 2],
    pub strategies: [BTreeMap<String, BTreeMap<String, f64>>; 2],
}

pub fn parse_output(text: &str) -> Result<Printed, String> {
    let val: Value = serde_json::from_str(text).map_err(|e| format!("stdout is not one JSON value: {} ({:?})", e, text.chars().take(200).collect::<String>()))?;
    let obj = val.as_object().ok_or("stdout is not a JSON object")?;
    let keys: Vec<&String> = obj.keys().collect();
    let want = [
        "player_one_regret",
        "player_one_strategy",
        "player_one_utility",
        "player_two_regret",
        "player_two_strategy",
        "player_two_utility",
        "regret",
    ];
    let mut sorted_keys: Vec<&str> = keys.iter().map(|k| k.as_str()).collect();
    sorted_keys.sort();
    if sorted_keys != want {
        return Err(format!("printed object has keys {:?}, documented {:?}", sorted_keys, want));
    }
    let num = |k: &str| obj[k].as_f64().ok_or_else(|| format!("{} is not a number: {}", k, obj[k]));
    let strat = |k: &str| -> Result<BTreeMap<String, BTreeMap<String, f64>>, String> {
        let mut res = BTreeMap::new();
        for (info, acts) in obj[k].as_object().ok_or_else(|| format!("{} is not an object", k))? {
            let mut m = BTreeMap::new();
            for (a, p) in acts.as_object().ok_or_else(|| format!("{}[{}] is not an object", k, info))? {
                m.insert(a.clone(), p.as_f64().ok_or_else(|| format!("probability {} is not a number", p))?);
            }
            res.insert(info.clone(), m);
        }
        Ok(res)
    };
    Ok(Printed {
        regret: num("regret")?,
        util: [num("player_one_utility")?, num("player_two_utility")?],
        regrets: [num("player_one_regret")?, num("player_two_regret")?],
        strategies: [strat("player_one_strategy")?, strat("player_two_strategy")?],
    })
}

/// validity of the printed strategies against the file's infosets; returns the dense profile
/// (keyed by tree infoset names). `printed_name` maps tree names to the names the program prints.
pub fn printed_profile(info: &Info, printed_name: &[BTreeMap<String, String>; 2], out: &Printed) -> Result<Profile, String> {
    let mut prof: Profile = Default::default();
    for p in 0..2 {
        let mut expected: BTreeMap<&String, &String> = BTreeMap::new();
        for (tree_name, shown) in printed_name[p].iter() {
            expected.insert(shown, tree_name);
        }
        for shown in out.strategies[p].keys() {
            if !expected.contains_key(shown) {
                return Err(format!("player {} strategy lists infoset {:?} which the file does not have (file: {:?})", p + 1, shown, expected.keys().collect::<Vec<_>>()));
            }
        }
        for (shown, tree_name) in expected.iter() {
            let acts = out.strategies[p]
                .get(*shown)
                .ok_or_else(|| format!("player {} strategy lacks infoset {:?}", p + 1, shown))?;
            let decl = &info.infosets[p][*tree_name];
            let mut sum = 0.0;
            let mut dense = vec![0.0; decl.len()];
            for (a, pr) in acts.iter() {
                let ind = decl
                    .iter()
                    .position(|d| d == a)
                    .ok_or_else(|| format!("infoset {:?} lists action {:?}, file has {:?}", shown, a, decl))?;
                if !(*pr > 0.0 && *pr <= 1.0 + 1e-9) {
                    return Err(format!("infoset {:?} action {:?} has probability {}", shown, a, pr));
                }
                dense[ind] = *pr;
                sum += pr;
            }
            if !((sum - 1.0).abs() <= 1e-9) {
                return Err(format!("probabilities of infoset {:?} of player {} sum to {}", shown, p + 1, sum));
            }
            if decl.len() >= 2 {
                prof[p].insert((*tree_name).clone(), dense);
            }
        }
    }
    Ok(prof)
}

pub fn identity_names(info: &Info) -> [BTreeMap<String, String>; 2] {
    [0, 1].map(|p| info.infosets[p].keys().map(|k| (k.clone(), k.clone())).collect())
}

/// Per-leaf sums of the outcome payoffs along the path (player one, player two), computed from the
/// writer's own line table and a (possibly edited) outcome table: what the file says the game pays
pub fn efg_leaf_sums(lines: &[EfgLine], outcomes: &BTreeMap<u64, (f64, f64)>) -> Option<Vec<(f64, f64)>> {
    fn rec(lines: &[EfgLine], pos: &mut usize, acc: (f64, f64), outcomes: &BTreeMap<u64, (f64, f64)>, out: &mut Vec<(f64, f64)>) -> Option<()> {
        let line = lines.get(*pos)?;
        *pos += 1;
        let add = if line.outcome == 0 { (0.0, 0.0) } else { *outcomes.get(&line.outcome)? };
        let acc = (acc.0 + add.0, acc.1 + add.1);
        if line.kind == 't' {
            out.push(acc);
        } else {
            for _ in 0..line.arity {
                rec(lines, pos, acc, outcomes, out)?;
            }
        }
        Some(())
    }
    let mut out = Vec::new();
    let mut pos = 0;
    rec(lines, &mut pos, (0.0, 0.0), outcomes, &mut out)?;
    if pos == lines.len() {
        Some(out)
    } else {
        None
    }
}
