//! Independent statement of the documented game contract (oracle of C11)
use crate::tree::T;
use std::collections::{BTreeMap, BTreeSet};

#[derive(Clone, Copy, Debug, PartialEq, Eq, PartialOrd, Ord)]
pub enum Rule {
    EmptyChance,
    NonPositiveChance,
    ProbabilitiesNotEqual,
    ImperfectRecall,
    EmptyPlayer,
    ActionsNotEqual,
    ActionsNotUnique,
    NonFinitePayoff,
}

impl Rule {
    pub fn name(&self) -> &'static str {
        match self {
            Rule::EmptyChance => "EmptyChance",
            Rule::NonPositiveChance => "NonPositiveChance",
            Rule::ProbabilitiesNotEqual => "ProbabilitiesNotEqual",
            Rule::ImperfectRecall => "ImperfectRecall",
            Rule::EmptyPlayer => "EmptyPlayer",
            Rule::ActionsNotEqual => "ActionsNotEqual",
            Rule::ActionsNotUnique => "ActionsNotUnique",
            Rule::NonFinitePayoff => "NonFinitePayoff",
        }
    }
}

#[derive(Clone, Debug, PartialEq)]
pub enum Contract {
    MustAccept,
    MustReject(BTreeSet<Rule>),
    /// the documented contract leaves the outcome open (reason)
    DontCare(&'static str),
}

/// extra facts about where violations sit (for the non-triviality statistics)
#[derive(Clone, Debug, Default)]
pub struct Facts {
    pub cross_branch: bool,
    pub player_two: bool,
    pub recall: bool,
}

struct Ctx<'a> {
    rules: BTreeSet<Rule>,
    dont_care: Option<&'static str>,
    // chance label -> normalised probabilities of the first valid multi-outcome node, root branch
    chance: BTreeMap<&'a str, (Vec<f64>, usize)>,
    single_chance_labels: BTreeSet<&'a str>,
    multi_chance_labels: BTreeSet<&'a str>,
    // (player, infoset) -> (actions, own history, root branch)
    infosets: BTreeMap<(usize, &'a str), (Vec<&'a str>, Option<Vec<(&'a str, usize)>>, usize)>,
    facts: Facts,
}

pub fn check(tree: &T) -> (Contract, Facts) {
    let mut ctx = Ctx {
        rules: BTreeSet::new(),
        dont_care: None,
        chance: BTreeMap::new(),
        single_chance_labels: BTreeSet::new(),
        multi_chance_labels: BTreeSet::new(),
        infosets: BTreeMap::new(),
        facts: Facts::default(),
    };
    let mut hist: [Vec<(&str, usize)>; 2] = [Vec::new(), Vec::new()];
    rec(tree, &mut ctx, &mut hist, usize::MAX, 0);
    for lab in ctx.single_chance_labels.iter() {
        if ctx.multi_chance_labels.contains(lab) {
            ctx.dont_care = Some("single-outcome chance node shares a label with a multi-outcome one");
        }
    }
    let res = if !ctx.rules.is_empty() {
        if ctx.dont_care.is_some() {
            // the open zones all concern the comparison of chance probabilities: an
            // implementation may legitimately report that comparison first
            ctx.rules.insert(Rule::ProbabilitiesNotEqual);
        }
        Contract::MustReject(ctx.rules)
    } else if let Some(why) = ctx.dont_care {
        Contract::DontCare(why)
    } else {
        Contract::MustAccept
    };
    (res, ctx.facts)
}

fn rec<'a>(
    node: &'a T,
    ctx: &mut Ctx<'a>,
    hist: &mut [Vec<(&'a str, usize)>; 2],
    branch: usize,
    depth: usize,
) {
    let branch_of = |ind: usize| if depth == 0 { ind } else { branch };
    match node {
        T::Term(pay) => {
            if !pay.is_finite() {
                ctx.rules.insert(Rule::NonFinitePayoff);
            }
        }
        T::Chance(label, outs) => {
            if outs.is_empty() {
                ctx.rules.insert(Rule::EmptyChance);
            }
            let valid = outs.iter().all(|(w, _)| *w > 0.0 && w.is_finite());
            if !valid {
                ctx.rules.insert(Rule::NonPositiveChance);
            }
            if let Some(lab) = label {
                if outs.len() == 1 {
                    ctx.single_chance_labels.insert(lab);
                } else if outs.len() >= 2 {
                    ctx.multi_chance_labels.insert(lab);
                }
                if valid && outs.len() >= 2 {
                    let total: f64 = outs.iter().map(|(w, _)| *w).sum();
                    let probs: Vec<f64> = outs.iter().map(|(w, _)| *w / total).collect();
                    match ctx.chance.get(lab.as_str()) {
                        None => {
                            ctx.chance.insert(lab, (probs, branch));
                        }
                        Some((first, first_branch)) => {
                            let mut differ = first.len() != probs.len();
                            if !differ {
                                for (a, b) in first.iter().zip(probs.iter()) {
                                    let rel = (a - b).abs() / a.abs().max(b.abs());
                                    if rel > 1e-6 {
                                        differ = true;
                                    } else if a != b {
                                        // not bit-for-bit the same after normalisation: an exact
                                        // comparison may tell them apart, a tolerant one need not
                                        ctx.dont_care =
                                            Some("chance probabilities differ by less than 1e-6");
                                    }
                                }
                            }
                            if differ {
                                ctx.rules.insert(Rule::ProbabilitiesNotEqual);
                                if *first_branch != branch {
                                    ctx.facts.cross_branch = true;
                                }
                            }
                        }
                    }
                }
            }
            for (ind, (_, next)) in outs.iter().enumerate() {
                rec(next, ctx, hist, branch_of(ind), depth + 1);
            }
        }
        T::Player(p, info, acts) => {
            if acts.is_empty() {
                ctx.rules.insert(Rule::EmptyPlayer);
                if *p == 1 {
                    ctx.facts.player_two = true;
                }
            }
            let labels: Vec<&str> = acts.iter().map(|(a, _)| a.as_str()).collect();
            let distinct: BTreeSet<&str> = labels.iter().copied().collect();
            if distinct.len() != labels.len() {
                ctx.rules.insert(Rule::ActionsNotUnique);
                if *p == 1 {
                    ctx.facts.player_two = true;
                }
            }
            if !acts.is_empty() {
                // own history is only defined (and only required to agree) for multi-action nodes
                let own = if acts.len() >= 2 {
                    Some(hist[*p].clone())
                } else {
                    None
                };
                match ctx.infosets.get_mut(&(*p, info.as_str())) {
                    None => {
                        ctx.infosets.insert((*p, info), (labels.clone(), own, branch));
                    }
                    Some((first_labels, first_own, first_branch)) => {
                        let mut bad = false;
                        if *first_labels != labels {
                            ctx.rules.insert(Rule::ActionsNotEqual);
                            bad = true;
                        }
                        match (&first_own, &own) {
                            (Some(a), Some(b)) => {
                                if a != b {
                                    ctx.rules.insert(Rule::ImperfectRecall);
                                    ctx.facts.recall = true;
                                    bad = true;
                                }
                            }
                            (None, Some(_)) => {
                                // first node was single-action (already an action mismatch)
                                *first_own = own.clone();
                            }
                            _ => (),
                        }
                        if bad {
                            if *first_branch != branch {
                                ctx.facts.cross_branch = true;
                            }
                            if *p == 1 {
                                ctx.facts.player_two = true;
                            }
                        }
                    }
                }
            }
            for (ind, (_, next)) in acts.iter().enumerate() {
                if acts.len() >= 2 {
                    hist[*p].push((info, ind));
                }
                rec(next, ctx, hist, branch_of(ind), depth + 1);
                if acts.len() >= 2 {
                    hist[*p].pop();
                }
            }
        }
    }
}
