mod cli;
mod gen;
mod glue;
mod oracle;
mod props;
mod refcfr;
mod runner;
mod stream;
mod tree;
mod validate;

use runner::Tier;

fn usage() -> ! {
    eprintln!("usage: verif-harness check <ID> [--tier quick|thorough] | replay <path> | list");
    std::process::exit(2)
}

fn main() {
    // library panics are part of what is observed; keep their output quiet unless asked
    if std::env::var("VERIF_VERBOSE_PANICS").is_err() {
        std::panic::set_hook(Box::new(|_| {}));
    }
    let args: Vec<String> = std::env::args().collect();
    let props = props::all();
    match args.get(1).map(|s| s.as_str()) {
        Some("list") => {
            for p in props.iter() {
                println!("{}", p.id);
            }
        }
        Some("check") => {
            let id = args.get(2).unwrap_or_else(|| usage());
            let mut tier = Tier::Quick;
            let mut i = 3;
            while i < args.len() {
                if args[i] == "--tier" {
                    tier = match args.get(i + 1).map(|s| s.as_str()) {
                        Some("thorough") => Tier::Thorough,
                        Some("quick") => Tier::Quick,
                        _ => usage(),
                    };
                    i += 1;
                }
                i += 1;
            }
            let seed: u64 = std::env::var("VERIF_SEED").ok().and_then(|s| s.parse().ok()).unwrap_or(1);
            let prop = props.iter().find(|p| p.id == id).unwrap_or_else(|| {
                eprintln!("unknown property {}", id);
                std::process::exit(2)
            });
            std::process::exit(runner::check(prop, tier, seed));
        }
        Some("replay") => {
            let path = args.get(2).unwrap_or_else(|| usage());
            std::process::exit(runner::replay(&props, path));
        }
        _ => usage(),
    }
}
