use verif_harness::runner::Tier;
use verif_harness::{props, runner};

fn usage() -> ! {
    eprintln!("usage: verif-harness check <ID> [--tier quick|thorough] | replay <path> | list");
    std::process::exit(2)
}

fn main() {
    // library panics are part of what is observed; keep their output quiet unless asked
    if std::env::var("VERIF_VERBOSE_PANICS").is_err() {
        std::panic::set_hook(Box::new(|_| {}));
    }
    let args: Vec<String> = std::env::args().collect();
    let props = props::all();
    match args.get(1).map(|s| s.as_str()) {
        Some("list") => {
            for p in props.iter() {
                println!("{}", p.id);
            }
        }
        Some("check") => {
            let id = args.get(2).unwrap_or_else(|| usage());
            let mut tier = Tier::Quick;
            let mut i = 3;
            while i < args.len() {
                if args[i] == "--tier" {
                    tier = match args.get(i + 1).map(|s| s.as_str()) {
                        Some("thorough") => Tier::Thorough,
                        Some("quick") => Tier::Quick,
                        _ => usage(),
                    };
                    i += 1;
                }
                i += 1;
            }
            let seed: u64 = std::env::var("VERIF_SEED").ok().and_then(|s| s.parse().ok()).unwrap_or(1);
            let prop = props.iter().find(|p| p.id == id).unwrap_or_else(|| {
                eprintln!("unknown property {}", id);
                std::process::exit(2)
            });
            std::process::exit(runner::check(prop, tier, seed));
        }
        Some("fuzzable") => {
            // "<ID> <max input length>" per line
            for id in runner::FUZZABLE.iter() {
                let prop = props.iter().find(|p| p.id == *id).unwrap();
                println!("{} {}", id, prop.max_len);
            }
        }
        Some("emit-corpus") => {
            // emit-corpus <ID> <dir> <count>
            let id = args.get(2).unwrap_or_else(|| usage());
            let dir = args.get(3).unwrap_or_else(|| usage());
            let count: usize = args.get(4).and_then(|s| s.parse().ok()).unwrap_or(64);
            let seed: u64 = std::env::var("VERIF_SEED").ok().and_then(|s| s.parse().ok()).unwrap_or(1);
            let prop = props.iter().find(|p| p.id == id).unwrap_or_else(|| usage());
            runner::emit_corpus(prop, dir, seed, count);
        }
        Some("merge-fuzz") => {
            // merge-fuzz <ID> <wall seconds> <dir with stats-*.json and log-*.txt>
            let id = args.get(2).unwrap_or_else(|| usage());
            let wall: f64 = args.get(3).and_then(|s| s.parse().ok()).unwrap_or(0.0);
            let dir = args.get(4).unwrap_or_else(|| usage());
            let mut stats = Vec::new();
            let mut logs = Vec::new();
            if let Ok(rd) = std::fs::read_dir(dir) {
                for e in rd.filter_map(|e| e.ok()) {
                    let name = e.file_name().to_string_lossy().to_string();
                    if name.starts_with("stats-") {
                        stats.push(e.path().display().to_string());
                    } else if name.starts_with("log-") {
                        logs.push(e.path().display().to_string());
                    }
                }
            }
            let violations: u64 = args.get(5).and_then(|s| s.parse().ok()).unwrap_or(0);
            runner::merge_fuzz(id, &stats, &logs, wall, violations);
        }
        Some("replay") => {
            let path = args.get(2).unwrap_or_else(|| usage());
            std::process::exit(runner::replay(&props, path));
        }
        _ => usage(),
    }
}
