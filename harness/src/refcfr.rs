//! Executable specification of discounted CFR (vanilla, chance sampled, external sampled) on the
//! abstract tree, with a conditioning guard (branch margins and a perturbation run).
//!
//! Written against flat preorder arrays: reach probabilities are pushed top-down in one loop and
//! values are pulled bottom-up in a second loop.
use crate::tree::T;
use std::collections::BTreeMap;

#[derive(Clone, Copy, Debug, PartialEq)]
pub struct Params {
    pub a: f64,
    pub b: f64,
    pub g: f64,
    pub w: f64,
}

impl Params {
    pub const VANILLA: Params = Params { a: f64::INFINITY, b: f64::INFINITY, g: 0.0, w: 0.0 };
    pub const LCFR: Params = Params { a: 1.0, b: 1.0, g: 1.0, w: f64::INFINITY };
    pub const CFR_PLUS: Params = Params { a: f64::INFINITY, b: f64::NEG_INFINITY, g: 2.0, w: f64::INFINITY };
    pub const DCFR: Params = Params { a: 1.5, b: 0.0, g: 2.0, w: f64::INFINITY };
    pub const DCFR_PRUNE: Params = Params { a: 1.5, b: 0.5, g: 2.0, w: f64::INFINITY };
}

#[derive(Clone, Copy, Debug, PartialEq, Eq, Hash, PartialOrd, Ord)]
pub enum Method {
    Full,
    Sampled,
    External,
}

#[derive(Clone, Copy, Debug, PartialEq, Eq, Hash, PartialOrd, Ord)]
pub enum Kind {
    Chance,
    Player,
}

#[derive(Clone, Debug)]
pub enum RNode {
    Term(f64),
    Chance { info: usize, kids: Vec<usize> },
    Player { p: usize, info: usize, kids: Vec<usize> },
}

#[derive(Clone, Debug)]
pub struct RefGame {
    /// preorder: every parent precedes its children
    pub nodes: Vec<RNode>,
    pub chance_probs: Vec<Vec<f64>>,
    /// per player: (name, arity) in order of first occurrence
    pub infosets: [Vec<(String, usize)>; 2],
}

/// Flatten a collapsed tree (no single-outcome chance, no single-action decision nodes)
pub fn flatten(tree: &T) -> RefGame {
    let mut game = RefGame {
        nodes: Vec::new(),
        chance_probs: Vec::new(),
        infosets: Default::default(),
    };
    let mut chance_ids: BTreeMap<String, usize> = BTreeMap::new();
    let mut info_ids: [BTreeMap<String, usize>; 2] = Default::default();
    fn rec(
        node: &T,
        game: &mut RefGame,
        chance_ids: &mut BTreeMap<String, usize>,
        info_ids: &mut [BTreeMap<String, usize>; 2],
    ) -> usize {
        let me = game.nodes.len();
        match node {
            T::Term(pay) => {
                game.nodes.push(RNode::Term(*pay));
            }
            T::Chance(label, outs) => {
                assert!(outs.len() >= 2, "flatten needs a collapsed tree");
                let total: f64 = outs.iter().map(|(w, _)| *w).sum();
                let probs: Vec<f64> = outs.iter().map(|(w, _)| *w / total).collect();
                let info = match label {
                    Some(lab) => match chance_ids.get(lab) {
                        Some(id) => *id,
                        None => {
                            let id = game.chance_probs.len();
                            game.chance_probs.push(probs);
                            chance_ids.insert(lab.clone(), id);
                            id
                        }
                    },
                    None => {
                        let id = game.chance_probs.len();
                        game.chance_probs.push(probs);
                        id
                    }
                };
                game.nodes.push(RNode::Chance { info, kids: Vec::new() });
                let kids: Vec<usize> = outs.iter().map(|(_, t)| rec(t, game, chance_ids, info_ids)).collect();
                if let RNode::Chance { kids: k, .. } = &mut game.nodes[me] {
                    *k = kids;
                }
            }
            T::Player(p, name, acts) => {
                assert!(acts.len() >= 2, "flatten needs a collapsed tree");
                let info = match info_ids[*p].get(name) {
                    Some(id) => *id,
                    None => {
                        let id = game.infosets[*p].len();
                        game.infosets[*p].push((name.clone(), acts.len()));
                        info_ids[*p].insert(name.clone(), id);
                        id
                    }
                };
                game.nodes.push(RNode::Player { p: *p, info, kids: Vec::new() });
                let kids: Vec<usize> = acts.iter().map(|(_, t)| rec(t, game, chance_ids, info_ids)).collect();
                if let RNode::Player { kids: k, .. } = &mut game.nodes[me] {
                    *k = kids;
                }
            }
        }
        me
    }
    rec(tree, &mut game, &mut chance_ids, &mut info_ids);
    game
}

/// Source of sampling decisions. `info` is the reference's own infoset id (for players: per
/// player), `weights` what the reference believes the site is presented with.
pub trait Decider {
    /// returns the chosen index and whether the choice was within the fragility margin
    fn decide(&mut self, kind: Kind, player: usize, info: usize, pass: u64, weights: &[f64]) -> Option<(usize, bool)>;
}

pub struct NoDraws;

impl Decider for NoDraws {
    fn decide(&mut self, _: Kind, _: usize, _: usize, _: u64, _: &[f64]) -> Option<(usize, bool)> {
        panic!("the unsampled method draws nothing")
    }
}

#[derive(Clone, Debug)]
pub struct RefDraw {
    pub kind: Kind,
    pub player: usize,
    pub info: usize,
    pub pass: u64,
    pub weights: Vec<f64>,
    pub choice: usize,
}

#[derive(Clone, Debug)]
pub struct RefResult {
    /// average strategy per player and infoset
    pub avg: [Vec<Vec<f64>>; 2],
    /// the strategy that the next iteration would play
    pub current: [Vec<Vec<f64>>; 2],
    /// bound per player with the vanilla formula sum_I 2 max(R, 0) / t, after every iteration
    pub bounds: Vec<[f64; 2]>,
    /// iterations actually executed
    pub iters: u64,
    /// first iteration after which the next strategy depended on a comparison within the margin
    pub fragile_at: Option<u64>,
    pub fragile_why: Option<&'static str>,
    /// first iteration after which matching before or after discounting give different strategies
    pub ambiguous_at: Option<u64>,
    /// first iteration after which an exact tie was resolved by the tie rule
    pub tie_used_at: Option<u64>,
    /// some chance infoset was met at two or more nodes within one pass of a sampled method
    pub shared_chance_reached: bool,
    /// a draw the decider could not provide
    pub missing_draw: Option<(Kind, usize, usize, u64)>,
    pub draws: Vec<RefDraw>,
    /// cumulative regrets at the end, per player and infoset (diagnostics)
    pub cum_regret: [Vec<Vec<f64>>; 2],
    /// some infoset received strategy weight that has (nearly) left the range of a double, so its
    /// average is not a meaningful number in either implementation
    pub avg_underflow: bool,
}

pub const MARGIN: f64 = 1e-9;

/// How an exact, summation-order independent tie of the arg-max / arg-min fallback is resolved
/// (all tied regrets are exactly zero and never received a non-zero increment since they were
/// last zeroed). The documentation says "best" / "worst" action and nothing about ties.
#[derive(Clone, Copy, Debug, PartialEq, Eq)]
pub enum TieRule {
    /// last maximiser, first minimiser (what the pinned library happens to do)
    LastMaxFirstMin,
    /// first maximiser, last minimiser
    FirstMaxLastMin,
    /// uniform over the tied actions
    Uniform,
}

struct InfoState {
    regret: Vec<f64>,
    mag: Vec<f64>,
    cum: Vec<f64>,
    strat: Vec<f64>,
    /// received a contribution to its average with positive own reach
    touched: bool,
}

fn discount_factor(t: u64, exp: f64) -> f64 {
    if exp == f64::INFINITY {
        1.0
    } else if exp == f64::NEG_INFINITY {
        0.0
    } else if exp == 0.0 {
        0.5
    } else {
        // t^exp / (t^exp + 1)
        1.0 / (1.0 + (t as f64).powf(-exp))
    }
}

/// regret matching with the documented fallbacks; returns (strategy, fragile reason, tie used)
fn regret_match(regret: &[f64], mag: &[f64], w: f64, tie: TieRule) -> (Vec<f64>, Option<&'static str>, bool) {
    let n = regret.len();
    let scale: f64 = mag.iter().sum();
    let eps = MARGIN * scale;
    let pos: f64 = regret.iter().filter(|r| **r > 0.0).sum();
    let max = regret.iter().copied().fold(f64::NEG_INFINITY, f64::max);
    let mut fragile = None;
    if scale > 0.0 && max > -eps && pos < eps {
        fragile = Some("positive regret sum within margin of zero");
    }
    // the sign of a single regret decides whether its action gets a (tiny) positive probability
    // or exactly none; that probability is the own reach of everything below, where it can be
    // all the weight an average strategy ever receives. A regret that is zero or a rounding
    // residue relative to what was added to and subtracted from it has no robust sign.
    if fragile.is_none() && pos > 0.0 && regret.iter().zip(mag.iter()).any(|(r, m)| *m > 0.0 && r.abs() <= MARGIN * m) {
        fragile = Some("sign of one regret within margin of zero");
    }
    // near the bottom of the range of a double a number carries only a few significant bits
    // (subnormals), so no relative margin means anything there
    if fragile.is_none() && mag.iter().any(|m| *m > 0.0 && *m < 1e-280) {
        fragile = Some("regret magnitudes in the subnormal range");
    }
    if pos > 0.0 {
        return (regret.iter().map(|r| if *r > 0.0 { r / pos } else { 0.0 }).collect(), fragile, false);
    }
    let mut tie_used = false;
    let strat = if w == 0.0 {
        vec![1.0 / n as f64; n]
    } else if w == f64::INFINITY || w == f64::NEG_INFINITY {
        let key = |r: f64| if w > 0.0 { r } else { -r };
        let mut best = 0;
        for i in 1..n {
            if key(regret[i]) > key(regret[best]) {
                best = i;
            }
        }
        let tied: Vec<usize> = (0..n)
            .filter(|i| (key(regret[best]) - key(regret[*i])) <= eps.max(f64::MIN_POSITIVE))
            .collect();
        if tied.len() >= 2 {
            // robust only if every tied value is an exact zero that never received an increment
            let robust = tied.iter().all(|i| regret[*i] == 0.0 && mag[*i] == 0.0);
            if robust {
                tie_used = true;
                match (tie, w > 0.0) {
                    (TieRule::Uniform, _) => {
                        let share = 1.0 / tied.len() as f64;
                        return (
                            (0..n).map(|i| if tied.contains(&i) { share } else { 0.0 }).collect(),
                            fragile,
                            true,
                        );
                    }
                    (TieRule::LastMaxFirstMin, true) | (TieRule::FirstMaxLastMin, false) => best = *tied.last().unwrap(),
                    (TieRule::LastMaxFirstMin, false) | (TieRule::FirstMaxLastMin, true) => best = tied[0],
                }
            } else {
                fragile = Some("arg-max tie within margin");
            }
        }
        (0..n).map(|i| if i == best { 1.0 } else { 0.0 }).collect()
    } else {
        let scaled: Vec<f64> = regret.iter().map(|r| r * w).collect();
        let top = scaled.iter().copied().fold(f64::NEG_INFINITY, f64::max);
        let exps: Vec<f64> = scaled.iter().map(|x| (x - top).exp()).collect();
        let tot: f64 = exps.iter().sum();
        exps.iter().map(|e| e / tot).collect()
    };
    (strat, fragile, tie_used)
}

pub struct RunCfg<'a> {
    pub method: Method,
    pub params: Params,
    pub iters: u64,
    /// multiply every increment by 1 + 1e-12 xi (xi from this seed)
    pub perturb: Option<u64>,
    pub decider: &'a mut dyn Decider,
    pub tie: TieRule,
}

struct Noise(Option<u64>);

impl Noise {
    fn next(&mut self) -> f64 {
        match &mut self.0 {
            None => 1.0,
            Some(state) => {
                *state = crate::stream::mix(*state);
                let xi = (*state >> 11) as f64 / (1u64 << 53) as f64 * 2.0 - 1.0;
                1.0 + 1e-12 * xi
            }
        }
    }
}

pub fn run(game: &RefGame, cfg: RunCfg) -> RefResult {
    let RunCfg {
        method,
        params,
        iters,
        perturb,
        decider,
        tie,
    } = cfg;
    let mut noise = Noise(perturb);
    let n = game.nodes.len();
    let mut infos: [Vec<InfoState>; 2] = [0, 1].map(|p| {
        game.infosets[p]
            .iter()
            .map(|(_, k)| InfoState {
                regret: vec![0.0; *k],
                mag: vec![0.0; *k],
                cum: vec![0.0; *k],
                strat: vec![1.0 / *k as f64; *k],
                touched: false,
            })
            .collect()
    });
    let mut res = RefResult {
        avg: Default::default(),
        current: Default::default(),
        bounds: Vec::new(),
        iters: 0,
        fragile_at: None,
        fragile_why: None,
        ambiguous_at: None,
        tie_used_at: None,
        shared_chance_reached: false,
        missing_draw: None,
        draws: Vec::new(),
        cum_regret: Default::default(),
        avg_underflow: false,
    };
    let mut pass: u64 = 0;
    let mut visited = vec![false; n];
    let mut reach_c = vec![0.0; n];
    let mut reach_p = vec![[0.0; 2]; n];
    let mut val = vec![0.0; n];
    // expectation of |payoff| along the same paths: the size of the terms whose sum is val
    let mut aval = vec![0.0; n];
    let mut chosen = vec![usize::MAX; n];
    'outer: for t in 1..=iters {
        // weight of this iteration in the average strategy, relative to the last iteration
        let avg_weight = if params.g == 0.0 {
            1.0
        } else {
            (params.g * ((t as f64).ln() - (iters as f64).ln())).exp()
        };
        let updaters: &[Option<usize>] = match method {
            Method::External => &[Some(0), Some(1)],
            _ => &[None],
        };
        let mut bounds = [0.0; 2];
        for upd in updaters {
            pass += 1;
            let mut chance_draw: BTreeMap<usize, usize> = BTreeMap::new();
            let mut player_draw: BTreeMap<(usize, usize), usize> = BTreeMap::new();
            visited.iter_mut().for_each(|v| *v = false);
            visited[0] = true;
            reach_c[0] = 1.0;
            reach_p[0] = [1.0; 2];
            // top-down
            for i in 0..n {
                if !visited[i] {
                    continue;
                }
                match &game.nodes[i] {
                    RNode::Term(_) => (),
                    RNode::Chance { info, kids } => {
                        if method == Method::Full {
                            for (k, pr) in kids.iter().zip(game.chance_probs[*info].iter()) {
                                visited[*k] = true;
                                reach_c[*k] = reach_c[i] * pr;
                                reach_p[*k] = reach_p[i];
                            }
                        } else {
                            let pick = match chance_draw.get(info) {
                                Some(c) => {
                                    res.shared_chance_reached = true;
                                    *c
                                }
                                None => {
                                    let weights = &game.chance_probs[*info];
                                    match decider.decide(Kind::Chance, 0, *info, pass, weights) {
                                        Some((c, frag)) => {
                                            if frag && res.fragile_at.is_none() {
                                                res.fragile_at = Some(t - 1);
                                                res.fragile_why = Some("chance draw near a boundary");
                                            }
                                            res.draws.push(RefDraw {
                                                kind: Kind::Chance,
                                                player: 0,
                                                info: *info,
                                                pass,
                                                weights: weights.clone(),
                                                choice: c,
                                            });
                                            chance_draw.insert(*info, c);
                                            c
                                        }
                                        None => {
                                            res.missing_draw = Some((Kind::Chance, 0, *info, pass));
                                            break 'outer;
                                        }
                                    }
                                }
                            };
                            if pick >= kids.len() {
                                res.missing_draw = Some((Kind::Chance, 0, *info, pass));
                                break 'outer;
                            }
                            chosen[i] = pick;
                            let k = kids[pick];
                            visited[k] = true;
                            reach_c[k] = reach_c[i];
                            reach_p[k] = reach_p[i];
                        }
                    }
                    RNode::Player { p, info, kids } => {
                        let st = &mut infos[*p][*info];
                        match upd {
                            None => {
                                // both players update, weighted by own reach
                                let own = reach_p[i][*p];
                                if own > 0.0 {
                                    st.touched = true;
                                }
                                for (c, s) in st.cum.iter_mut().zip(st.strat.iter()) {
                                    *c += avg_weight * own * s * noise.next();
                                }
                                for (a, k) in kids.iter().enumerate() {
                                    visited[*k] = true;
                                    reach_c[*k] = reach_c[i];
                                    reach_p[*k] = reach_p[i];
                                    reach_p[*k][*p] *= st.strat[a];
                                }
                            }
                            Some(u) if u == p => {
                                for k in kids.iter() {
                                    visited[*k] = true;
                                }
                            }
                            Some(_) => {
                                st.touched = true;
                                for (c, s) in st.cum.iter_mut().zip(st.strat.iter()) {
                                    *c += avg_weight * s * noise.next();
                                }
                                let pick = match player_draw.get(&(*p, *info)) {
                                    Some(c) => *c,
                                    None => {
                                        match decider.decide(Kind::Player, *p, *info, pass, &st.strat) {
                                            Some((c, frag)) => {
                                                if frag && res.fragile_at.is_none() {
                                                    res.fragile_at = Some(t - 1);
                                                    res.fragile_why = Some("player draw near a boundary");
                                                }
                                                res.draws.push(RefDraw {
                                                    kind: Kind::Player,
                                                    player: *p,
                                                    info: *info,
                                                    pass,
                                                    weights: st.strat.clone(),
                                                    choice: c,
                                                });
                                                player_draw.insert((*p, *info), c);
                                                c
                                            }
                                            None => {
                                                res.missing_draw = Some((Kind::Player, *p, *info, pass));
                                                break 'outer;
                                            }
                                        }
                                    }
                                };
                                if pick >= kids.len() {
                                    res.missing_draw = Some((Kind::Player, *p, *info, pass));
                                    break 'outer;
                                }
                                chosen[i] = pick;
                                visited[kids[pick]] = true;
                            }
                        }
                    }
                }
            }
            // bottom-up
            for i in (0..n).rev() {
                if !visited[i] {
                    continue;
                }
                match &game.nodes[i] {
                    RNode::Term(pay) => {
                        val[i] = match upd {
                            Some(1) => -*pay,
                            _ => *pay,
                        };
                        aval[i] = pay.abs();
                    }
                    RNode::Chance { info, kids } => {
                        if method == Method::Full {
                            val[i] = kids
                                .iter()
                                .zip(game.chance_probs[*info].iter())
                                .map(|(k, pr)| pr * val[*k])
                                .sum();
                            aval[i] = kids
                                .iter()
                                .zip(game.chance_probs[*info].iter())
                                .map(|(k, pr)| pr * aval[*k])
                                .sum();
                        } else {
                            val[i] = val[kids[chosen[i]]];
                            aval[i] = aval[kids[chosen[i]]];
                        }
                    }
                    RNode::Player { p, info, kids } => {
                        let st = &mut infos[*p][*info];
                        match upd {
                            None => {
                                let v: f64 = kids.iter().zip(st.strat.iter()).map(|(k, s)| s * val[*k]).sum();
                                let av: f64 = kids.iter().zip(st.strat.iter()).map(|(k, s)| s * aval[*k]).sum();
                                let cf = reach_c[i] * reach_p[i][1 - *p];
                                let sign = if *p == 0 { 1.0 } else { -1.0 };
                                for (a, k) in kids.iter().enumerate() {
                                    st.regret[a] += sign * cf * (val[*k] - v) * noise.next();
                                    st.mag[a] += cf * (aval[*k] + av);
                                }
                                val[i] = v;
                                aval[i] = av;
                            }
                            Some(u) if u == p => {
                                let v: f64 = kids.iter().zip(st.strat.iter()).map(|(k, s)| s * val[*k]).sum();
                                let av: f64 = kids.iter().zip(st.strat.iter()).map(|(k, s)| s * aval[*k]).sum();
                                for (a, k) in kids.iter().enumerate() {
                                    st.regret[a] += (val[*k] - v) * noise.next();
                                    st.mag[a] += aval[*k] + av;
                                }
                                val[i] = v;
                                aval[i] = av;
                            }
                            Some(_) => {
                                val[i] = val[kids[chosen[i]]];
                                aval[i] = aval[kids[chosen[i]]];
                            }
                        }
                    }
                }
            }
            // match, then discount
            let pos_f = discount_factor(t, params.a);
            let neg_f = discount_factor(t, params.b);
            // a factor t^x/(t^x+1) below 1e-304 sits at the bottom of the range of a double:
            // whether it (or its product with a regret) is a subnormal or an exact zero depends on
            // how it is computed, and an exact zero versus a positive residue is a branch
            let edge = |e: f64| e.is_finite() && e * (t as f64).ln() < -700.0;
            if (edge(params.a) || edge(params.b)) && res.fragile_at.is_none() {
                res.fragile_at = Some(t - 1);
                res.fragile_why = Some("discount factor at the bottom of the range of a double");
            }
            for p in 0..2 {
                if let Some(u) = upd {
                    if *u != p {
                        continue;
                    }
                }
                let mut bound = 0.0;
                for st in infos[p].iter_mut() {
                    let (strat, frag, tie_used) = regret_match(&st.regret, &st.mag, params.w, tie);
                    if tie_used && res.tie_used_at.is_none() {
                        res.tie_used_at = Some(t);
                    }
                    // in external sampling player one's new strategy is already used by the second
                    // pass of the same iteration
                    let safe_t = if *upd == Some(0) { t - 1 } else { t };
                    if let Some(why) = frag {
                        if res.fragile_at.is_none() {
                            res.fragile_at = Some(safe_t);
                            res.fragile_why = Some(why);
                        }
                    }
                    // the alternative order: discount first
                    let disc: Vec<f64> = st
                        .regret
                        .iter()
                        .map(|r| if *r > 0.0 { r * pos_f } else { r * neg_f })
                        .collect();
                    if res.ambiguous_at.is_none() {
                        let (alt, _, _) = regret_match(&disc, &st.mag, params.w, tie);
                        if alt.iter().zip(strat.iter()).any(|(x, y)| (x - y).abs() > 1e-9) {
                            res.ambiguous_at = Some(safe_t);
                        }
                    }
                    st.strat = strat;
                    for (m, r) in st.mag.iter_mut().zip(st.regret.iter()) {
                        *m *= if *r > 0.0 { pos_f } else { neg_f };
                    }
                    st.regret = disc;
                    let top = st.regret.iter().copied().fold(0.0, f64::max);
                    bound += 2.0 * top / t as f64;
                }
                bounds[p] = bound;
            }
        }
        res.bounds.push(bounds);
        res.iters = t;
    }
    for p in 0..2 {
        for st in infos[p].iter() {
            let tot: f64 = st.cum.iter().sum();
            let k = st.cum.len();
            if st.touched && tot < 1e-250 {
                res.avg_underflow = true;
            }
            res.avg[p].push(if tot == 0.0 {
                vec![1.0 / k as f64; k]
            } else {
                st.cum.iter().map(|c| c / tot).collect()
            });
            res.current[p].push(st.strat.clone());
            res.cum_regret[p].push(st.regret.clone());
        }
    }
    res
}
