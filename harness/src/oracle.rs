//! Independent evaluation oracles on the abstract tree
use crate::tree::{Info, Profile, T};
use std::collections::{BTreeMap, HashMap};

fn probs_at<'a>(prof: &'a Profile, p: usize, info: &str, arity: usize) -> Option<&'a [f64]> {
    if arity == 1 {
        None
    } else {
        Some(prof[p].get(info).unwrap_or_else(|| panic!("profile lacks infoset {} of player {}", info, p)))
    }
}

/// Expected payoff to player one by explicit enumeration of all paths
pub fn utility(tree: &T, prof: &Profile) -> f64 {
    match tree {
        T::Term(pay) => *pay,
        T::Chance(_, outs) => {
            let total: f64 = outs.iter().map(|(w, _)| *w).sum();
            outs.iter().map(|(w, t)| w / total * utility(t, prof)).sum()
        }
        T::Player(p, info, acts) => match probs_at(prof, *p, info, acts.len()) {
            None => utility(&acts[0].1, prof),
            Some(probs) => acts
                .iter()
                .zip(probs.iter())
                .map(|((_, t), pr)| if *pr > 0.0 { pr * utility(t, prof) } else { 0.0 })
                .sum(),
        },
    }
}

/// Best response value of `dev` (in his own payoff) by enumerating every pure strategy.
/// Returns None when there are more than `limit` pure strategies.
pub fn br_exhaustive(tree: &T, info: &Info, prof: &Profile, dev: usize, limit: u64) -> Option<f64> {
    let sets: Vec<(&String, usize)> = info.multi(dev).map(|(k, a)| (k, a.len())).collect();
    let mut count: u64 = 1;
    for (_, n) in &sets {
        count = count.checked_mul(*n as u64)?;
        if count > limit {
            return None;
        }
    }
    let sign = if dev == 0 { 1.0 } else { -1.0 };
    let mut choice = vec![0usize; sets.len()];
    let mut best = f64::NEG_INFINITY;
    let mut pure = prof.clone();
    loop {
        for ((name, n), c) in sets.iter().zip(choice.iter()) {
            let mut v = vec![0.0; *n];
            v[*c] = 1.0;
            pure[dev].insert((*name).clone(), v);
        }
        let val = sign * utility(tree, &pure);
        if val > best {
            best = val;
        }
        // next
        let mut pos = 0;
        loop {
            if pos == sets.len() {
                return Some(best);
            }
            choice[pos] += 1;
            if choice[pos] < sets[pos].1 {
                break;
            }
            choice[pos] = 0;
            pos += 1;
        }
    }
}

/// Best response value of `dev` via the sequence form: leaf payoffs weighted by chance and the
/// opponent are aggregated per own sequence, then resolved over the tree of own sequences.
pub fn br_seq(tree: &T, prof: &Profile, dev: usize) -> f64 {
    // sequence ids: 0 is the empty sequence
    struct State<'a> {
        seq_ids: HashMap<(&'a str, usize), usize>,
        gain: Vec<f64>,
        // infoset -> (parent sequence, arity)
        parent: BTreeMap<&'a str, (usize, usize)>,
        recall_ok: bool,
    }
    fn rec<'a>(node: &'a T, prof: &Profile, dev: usize, reach: f64, seq: usize, st: &mut State<'a>) {
        match node {
            T::Term(pay) => {
                let own = if dev == 0 { *pay } else { -*pay };
                st.gain[seq] += reach * own;
            }
            T::Chance(_, outs) => {
                let total: f64 = outs.iter().map(|(w, _)| *w).sum();
                for (w, t) in outs {
                    rec(t, prof, dev, reach * (w / total), seq, st);
                }
            }
            T::Player(p, info, acts) => {
                if acts.len() == 1 {
                    rec(&acts[0].1, prof, dev, reach, seq, st);
                } else if *p == dev {
                    match st.parent.get(info.as_str()) {
                        Some((par, _)) => {
                            if *par != seq {
                                st.recall_ok = false;
                            }
                        }
                        None => {
                            st.parent.insert(info.as_str(), (seq, acts.len()));
                        }
                    }
                    for (ind, (_, t)) in acts.iter().enumerate() {
                        let next = match st.seq_ids.get(&(info.as_str(), ind)) {
                            Some(id) => *id,
                            None => {
                                let id = st.gain.len();
                                st.gain.push(0.0);
                                st.seq_ids.insert((info.as_str(), ind), id);
                                id
                            }
                        };
                        rec(t, prof, dev, reach, next, st);
                    }
                } else {
                    let probs = &prof[*p][info];
                    for ((_, t), pr) in acts.iter().zip(probs.iter()) {
                        if *pr > 0.0 {
                            rec(t, prof, dev, reach * pr, seq, st);
                        }
                    }
                }
            }
        }
    }
    let mut st = State {
        seq_ids: HashMap::new(),
        gain: vec![0.0],
        parent: BTreeMap::new(),
        recall_ok: true,
    };
    rec(tree, prof, dev, 1.0, 0, &mut st);
    assert!(st.recall_ok, "br_seq called on a game without perfect recall");
    // children infosets per sequence
    let mut kids: Vec<Vec<&str>> = vec![Vec::new(); st.gain.len()];
    for (name, (par, _)) in st.parent.iter() {
        kids[*par].push(name);
    }
    // sequences were numbered in discovery order, so every child sequence has a larger id than
    // its parent sequence; resolve from the back
    let mut value = st.gain.clone();
    for seq in (0..value.len()).rev() {
        let mut add = 0.0;
        for name in &kids[seq] {
            let (_, arity) = st.parent[name];
            let mut best = f64::NEG_INFINITY;
            for a in 0..arity {
                let id = st.seq_ids[&(*name, a)];
                if value[id] > best {
                    best = value[id];
                }
            }
            add += best;
        }
        value[seq] += add;
    }
    value[0]
}

#[derive(Clone, Debug)]
pub struct Eval {
    pub util: f64,
    pub br: [f64; 2],
    pub regret: [f64; 2],
    pub exhaustive: [bool; 2],
}

pub const EXHAUSTIVE_LIMIT: u64 = 20_000;

/// Evaluate a profile: utility, best responses and regrets (best response A when affordable and
/// cross checked against B; B otherwise). Err on disagreement between the two oracles.
pub fn evaluate(tree: &T, info: &Info, prof: &Profile, exhaustive_limit: u64) -> Result<Eval, String> {
    let util = utility(tree, prof);
    let scale = scale_of(tree);
    let mut br = [0.0; 2];
    let mut exhaustive = [false; 2];
    for dev in 0..2 {
        let b = br_seq(tree, prof, dev);
        let cost = info.num_nodes as u64;
        match br_exhaustive(tree, info, prof, dev, exhaustive_limit / cost.max(1) + 1) {
            Some(a) => {
                if (a - b).abs() > 1e-9 * scale {
                    return Err(format!(
                        "oracle disagreement for player {}: exhaustive {} vs sequence form {}",
                        dev + 1,
                        a,
                        b
                    ));
                }
                br[dev] = a;
                exhaustive[dev] = true;
            }
            None => br[dev] = b,
        }
    }
    let regret = [f64::max(br[0] - util, 0.0), f64::max(br[1] + util, 0.0)];
    Ok(Eval {
        util,
        br,
        regret,
        exhaustive,
    })
}

/// Magnitude of the game: the chance-expectation of the largest |payoff| the players can steer to.
/// Every utility, best-response value and regret is bounded by it, and every one of them is a sum
/// of terms of at most this size, so it is the yardstick for rounding error. (It used to be
/// max(1, max |payoff|), which is an absolute tolerance for games with tiny payoffs and a
/// uselessly loose one when a huge payoff sits behind a tiny chance probability.)
pub fn magnitude(tree: &T) -> f64 {
    match tree {
        T::Term(p) => p.abs(),
        T::Chance(_, outs) => {
            let total: f64 = outs.iter().map(|(w, _)| *w).sum();
            outs.iter().map(|(w, t)| w / total * magnitude(t)).sum()
        }
        T::Player(_, _, acts) => acts.iter().map(|(_, t)| magnitude(t)).fold(0.0, f64::max),
    }
}

pub fn scale_of(tree: &T) -> f64 {
    magnitude(tree).max(f64::MIN_POSITIVE)
}

/// payoff range over all leaves
pub fn payoff_range(tree: &T) -> f64 {
    let pays = tree.payoffs();
    let max = pays.iter().copied().fold(f64::NEG_INFINITY, f64::max);
    let min = pays.iter().copied().fold(f64::INFINITY, f64::min);
    max - min
}
