//! Glue between the abstract tree and the library: construction, profile injection, named view,
//! hook recorder, structural zip of the library's compact tree with the harness's own.
use crate::refcfr::{Kind, Method, Params};
use crate::stream::{mix, mix2};
use crate::tree::{Info, Profile, T, TN};
use cfr::verif::{Dump, DumpNode, Hooks, Site, SiteKind};
use cfr::{Game, GameError, RegretBound, RegretParams, SolveError, SolveMethod, StratError, Strategies};
use std::collections::BTreeMap;
use std::sync::atomic::{AtomicBool, Ordering};
use std::sync::{Arc, Mutex};

pub type G = Game<String, String>;
pub type Named = [Vec<(String, Vec<(String, f64)>)>; 2];

pub fn build(tree: &T) -> Result<G, GameError> {
    Game::from_root(TN(tree.clone()))
}

/// the same tree handed over through iterators with inexact size hints (mode 1..3)
pub fn build_lazy(tree: &T, mode: u8) -> Result<G, GameError> {
    Game::from_root(crate::tree::TL(tree.clone(), mode))
}

/// named input covering every infoset (multi-action from the profile, single-action with 1.0)
pub fn named_input(info: &Info, prof: &Profile) -> Named {
    let mut res: Named = Default::default();
    for p in 0..2 {
        for (name, acts) in info.infosets[p].iter() {
            if acts.len() >= 2 {
                let probs = &prof[p][name];
                res[p].push((
                    name.clone(),
                    acts.iter().cloned().zip(probs.iter().copied()).collect(),
                ));
            } else {
                res[p].push((name.clone(), vec![(acts[0].clone(), 1.0)]));
            }
        }
    }
    res
}

pub fn inject<'a>(game: &'a G, info: &Info, prof: &Profile) -> Result<Strategies<'a, String, String>, StratError> {
    game.from_named(named_input(info, prof))
}

pub fn read_named(strats: &Strategies<'_, String, String>) -> Named {
    let [one, two] = strats.as_named();
    [
        one.map(|(i, acts)| (i.clone(), acts.map(|(a, p)| (a.clone(), p)).collect())).collect(),
        two.map(|(i, acts)| (i.clone(), acts.map(|(a, p)| (a.clone(), p)).collect())).collect(),
    ]
}

/// dense profile over multi-action infosets from a named view; errors describe malformed views
pub fn to_profile(info: &Info, named: &Named) -> Result<Profile, String> {
    let mut prof: Profile = Default::default();
    for p in 0..2 {
        for (name, acts) in named[p].iter() {
            let decl = info.infosets[p]
                .get(name)
                .ok_or_else(|| format!("named view lists unknown infoset {:?} for player {}", name, p + 1))?;
            if decl.len() >= 2 {
                let mut v = vec![0.0; decl.len()];
                for (a, pr) in acts {
                    let ind = decl
                        .iter()
                        .position(|d| d == a)
                        .ok_or_else(|| format!("named view lists unknown action {:?} at infoset {:?}", a, name))?;
                    v[ind] = *pr;
                }
                if prof[p].insert(name.clone(), v).is_some() {
                    return Err(format!("named view lists infoset {:?} twice", name));
                }
            }
        }
        for (name, _) in info.multi(p) {
            if !prof[p].contains_key(name) {
                return Err(format!("named view lacks infoset {:?} of player {}", name, p + 1));
            }
        }
    }
    Ok(prof)
}

pub fn lib_params(p: &Params) -> RegretParams {
    RegretParams::new(p.a, p.b, p.g, p.w)
}

pub fn lib_method(m: Method) -> SolveMethod {
    match m {
        Method::Full => SolveMethod::Full,
        Method::Sampled => SolveMethod::Sampled,
        Method::External => SolveMethod::External,
    }
}

pub struct Solved {
    pub prof: Profile,
    pub named: Named,
    pub bounds: [f64; 2],
    pub total_bound: f64,
}

pub fn unpack(
    info: &Info,
    res: Result<(Strategies<'_, String, String>, RegretBound), SolveError>,
) -> Result<Solved, String> {
    let (strats, bound) = res.map_err(|e| format!("solve error {:?}", e))?;
    let named = read_named(&strats);
    let prof = to_profile(info, &named)?;
    Ok(Solved {
        prof,
        named,
        bounds: [
            bound.player_regret_bound(cfr::PlayerNum::One),
            bound.player_regret_bound(cfr::PlayerNum::Two),
        ],
        total_bound: bound.regret_bound(),
    })
}

// ---------------------------------------------------------------------------------------------
// decision functions

#[derive(Clone, Debug, PartialEq)]
pub enum Decision {
    /// inverse CDF with a variate that is a hash of (seed, kind, slot, pass)
    Proportional,
    /// uniform over the support
    UniformSupport,
    First,
    Last,
    /// script bytes indexed by a hash of the site
    Scripted(Vec<u8>),
}

pub const SUPPORT_EPS: f64 = 1e-9;

/// A pure function of (seed, kind, key, pass, weights). `key` identifies the infoset in a way
/// both the library side and the reference side agree on. Returns (index, fragile).
pub fn decide(dec: &Decision, seed: u64, kind: Kind, key: u64, pass: u64, weights: &[f64]) -> (usize, bool) {
    let h = mix2(mix2(seed, key ^ if kind == Kind::Chance { 0x55 } else { 0xAA00 }), pass);
    let mut fragile = weights.iter().any(|w| *w > 0.0 && *w < 1e-6);
    let support: Vec<usize> = (0..weights.len()).filter(|i| weights[*i] >= SUPPORT_EPS).collect();
    if support.is_empty() {
        return (0, true);
    }
    let res = match dec {
        Decision::Proportional => {
            let u = (h >> 11) as f64 / (1u64 << 53) as f64;
            let total: f64 = weights.iter().sum();
            let mut acc = 0.0;
            let mut pick = *support.last().unwrap();
            for (i, w) in weights.iter().enumerate() {
                acc += w / total;
                if (u - acc).abs() < 1e-9 && i + 1 < weights.len() {
                    fragile = true;
                }
                if u < acc {
                    pick = i;
                    break;
                }
            }
            if weights[pick] < SUPPORT_EPS {
                fragile = true;
            }
            pick
        }
        Decision::UniformSupport => support[(h % support.len() as u64) as usize],
        Decision::First => support[0],
        Decision::Last => *support.last().unwrap(),
        Decision::Scripted(script) => {
            let b = if script.is_empty() { 0 } else { script[(h % script.len() as u64) as usize] };
            support[(b as usize) % support.len()]
        }
    };
    (res, fragile)
}

// ---------------------------------------------------------------------------------------------
// recorder

#[derive(Clone, Debug, PartialEq)]
pub struct Draw {
    pub kind: Kind,
    pub slot: usize,
    pub pass: u64,
    pub weights: Vec<f64>,
    pub produced: usize,
    pub used: usize,
}

pub enum Mode {
    /// production sampler on the thread generator; only observe
    Observe,
    /// production sampler on a generator seeded with hash(seed, site)
    Seeded(u64),
    /// replace every draw by the decision function
    Decide(Decision, u64),
}

pub struct Recorder {
    pub mode: Mode,
    pub log: Mutex<Vec<Draw>>,
    pub tasks: Mutex<BTreeMap<u64, usize>>,
    pub fragile: AtomicBool,
}

impl Recorder {
    pub fn new(mode: Mode) -> Arc<Recorder> {
        Arc::new(Recorder {
            mode,
            log: Mutex::new(Vec::new()),
            tasks: Mutex::new(BTreeMap::new()),
            fragile: AtomicBool::new(false),
        })
    }

    pub fn draws(&self) -> Vec<Draw> {
        let mut log = self.log.lock().unwrap().clone();
        log.sort_by(|a, b| (a.pass, a.kind, a.slot).cmp(&(b.pass, b.kind, b.slot)));
        log
    }

    pub fn max_tasks(&self) -> usize {
        self.tasks.lock().unwrap().values().copied().max().unwrap_or(0)
    }

    pub fn passes_with_tasks(&self, at_least: usize) -> usize {
        self.tasks.lock().unwrap().values().filter(|c| **c >= at_least).count()
    }
}

pub fn site_key(kind: Kind, slot: usize) -> u64 {
    mix(slot as u64 + if kind == Kind::Chance { 1 << 40 } else { 2 << 40 })
}

impl Hooks for Recorder {
    fn rng_seed(&self, site: &Site) -> Option<u64> {
        match &self.mode {
            Mode::Seeded(seed) => Some(mix2(
                mix2(*seed, site.slot as u64 + if site.kind == SiteKind::Chance { 1 << 40 } else { 2 << 40 }),
                site.pass,
            )),
            // a fixed generator keeps the production sampler deterministic; its result is replaced
            Mode::Decide(..) => Some(1),
            Mode::Observe => None,
        }
    }

    fn draw(&self, site: &Site, weights: &[f64], produced: usize) -> usize {
        let kind = if site.kind == SiteKind::Chance { Kind::Chance } else { Kind::Player };
        let used = match &self.mode {
            Mode::Decide(dec, seed) => {
                let (c, frag) = decide(dec, *seed, kind, site_key(kind, site.slot), site.pass, weights);
                if frag {
                    self.fragile.store(true, Ordering::SeqCst);
                }
                c
            }
            _ => produced,
        };
        self.log.lock().unwrap().push(Draw {
            kind,
            slot: site.slot,
            pass: site.pass,
            weights: weights.to_vec(),
            produced,
            used,
        });
        used
    }

    fn task_start(&self, pass: u64) {
        *self.tasks.lock().unwrap().entry(pass).or_insert(0) += 1;
    }
}

pub fn solve_hooked<'a>(
    game: &'a G,
    rec: &Arc<Recorder>,
    method: Method,
    iters: u64,
    max_reg: f64,
    threads: usize,
    params: Option<RegretParams>,
) -> Result<(Strategies<'a, String, String>, RegretBound), SolveError> {
    let hooks: Arc<dyn Hooks> = rec.clone();
    cfr::verif::with_hooks(hooks, || game.solve(lib_method(method), iters, max_reg, threads, params))
}

// ---------------------------------------------------------------------------------------------
// structural zip

/// index maps obtained by walking the library's compact tree and the harness's collapsed tree
#[derive(Clone, Debug, Default)]
pub struct Maps {
    /// library chance infoset index -> reference chance id is not needed; we map reference ids
    /// (order of first occurrence in the collapsed tree) to library indices
    pub chance_lib_of_ref: Vec<usize>,
    pub player_lib_of_ref: [Vec<usize>; 2],
    pub num_lib_infosets: [usize; 2],
}

pub fn zip_dump(dump: &Dump, collapsed: &T, rg: &crate::refcfr::RefGame) -> Result<Maps, String> {
    let mut maps = Maps {
        chance_lib_of_ref: vec![usize::MAX; rg.chance_probs.len()],
        player_lib_of_ref: [vec![usize::MAX; rg.infosets[0].len()], vec![usize::MAX; rg.infosets[1].len()]],
        num_lib_infosets: [dump.player_infosets[0].len(), dump.player_infosets[1].len()],
    };
    // walk both trees; the reference game's node order is the preorder of `collapsed`
    let mut next = 0usize;
    fn rec(
        d: &DumpNode,
        t: &T,
        rg: &crate::refcfr::RefGame,
        next: &mut usize,
        maps: &mut Maps,
        dump: &Dump,
    ) -> Result<(), String> {
        let me = *next;
        *next += 1;
        match (d, t, &rg.nodes[me]) {
            (DumpNode::Terminal(a), T::Term(b), _) => {
                if a.to_bits() != b.to_bits() && !(a == b) {
                    return Err(format!("terminal payoff {} became {}", b, a));
                }
                Ok(())
            }
            (DumpNode::Chance(li, kids), T::Chance(_, outs), crate::refcfr::RNode::Chance { info, .. }) => {
                if kids.len() != outs.len() {
                    return Err(format!("chance node with {} outcomes became {}", outs.len(), kids.len()));
                }
                let slot = &mut maps.chance_lib_of_ref[*info];
                if *slot == usize::MAX {
                    *slot = *li;
                } else if *slot != *li {
                    return Err("chance infoset partition differs".into());
                }
                let probs = dump
                    .chance_probs
                    .get(*li)
                    .ok_or_else(|| "chance infoset index out of range".to_string())?;
                let want = &rg.chance_probs[*info];
                if probs.len() != want.len() || probs.iter().zip(want.iter()).any(|(a, b)| (a - b).abs() > 1e-12) {
                    return Err(format!("chance probabilities {:?} became {:?}", want, probs));
                }
                for (dk, (_, tk)) in kids.iter().zip(outs.iter()) {
                    rec(dk, tk, rg, next, maps, dump)?;
                }
                Ok(())
            }
            (DumpNode::Player(lp, li, kids), T::Player(p, _, acts), crate::refcfr::RNode::Player { info, .. }) => {
                if lp != p {
                    return Err("player of a decision node changed".into());
                }
                if kids.len() != acts.len() {
                    return Err(format!("decision node with {} actions became {}", acts.len(), kids.len()));
                }
                let slot = &mut maps.player_lib_of_ref[*p][*info];
                if *slot == usize::MAX {
                    *slot = *li;
                } else if *slot != *li {
                    return Err("player infoset partition differs".into());
                }
                match dump.player_infosets[*p].get(*li) {
                    Some((n, _)) if *n == acts.len() => (),
                    _ => return Err("infoset action count differs".into()),
                }
                for (dk, (_, tk)) in kids.iter().zip(acts.iter()) {
                    rec(dk, tk, rg, next, maps, dump)?;
                }
                Ok(())
            }
            _ => Err("node kinds differ between the compact tree and the input tree".into()),
        }
    }
    rec(&dump.root, collapsed, rg, &mut next, &mut maps, dump)?;
    // injectivity
    for v in [&maps.chance_lib_of_ref, &maps.player_lib_of_ref[0], &maps.player_lib_of_ref[1]] {
        let mut seen = std::collections::BTreeSet::new();
        for x in v.iter() {
            if !seen.insert(*x) {
                return Err("two infosets were merged in the compact tree".into());
            }
        }
    }
    if dump.chance_probs.len() != rg.chance_probs.len()
        || dump.player_infosets[0].len() != rg.infosets[0].len()
        || dump.player_infosets[1].len() != rg.infosets[1].len()
    {
        return Err("number of infosets differs".into());
    }
    Ok(maps)
}

impl Maps {
    /// the recorder slot of a reference site
    pub fn slot(&self, kind: Kind, player: usize, info: usize) -> usize {
        match kind {
            Kind::Chance => self.chance_lib_of_ref[info],
            Kind::Player => {
                if player == 0 {
                    self.player_lib_of_ref[0][info]
                } else {
                    self.num_lib_infosets[0] + self.player_lib_of_ref[1][info]
                }
            }
        }
    }
}

/// reference-side decider using the same pure decision function as the recorder
pub struct FnDecider<'a> {
    pub dec: Decision,
    pub seed: u64,
    pub maps: &'a Maps,
}

impl crate::refcfr::Decider for FnDecider<'_> {
    fn decide(&mut self, kind: Kind, player: usize, info: usize, pass: u64, weights: &[f64]) -> Option<(usize, bool)> {
        let slot = self.maps.slot(kind, player, info);
        Some(decide(&self.dec, self.seed, kind, site_key(kind, slot), pass, weights))
    }
}

/// reference-side decider replaying a recorded log
pub struct ReplayDecider<'a> {
    pub log: BTreeMap<(Kind, usize, u64), usize>,
    pub maps: &'a Maps,
}

impl<'a> ReplayDecider<'a> {
    pub fn new(draws: &[Draw], maps: &'a Maps) -> Self {
        ReplayDecider {
            log: draws.iter().map(|d| ((d.kind, d.slot, d.pass), d.used)).collect(),
            maps,
        }
    }
}

impl crate::refcfr::Decider for ReplayDecider<'_> {
    fn decide(&mut self, kind: Kind, player: usize, info: usize, pass: u64, _weights: &[f64]) -> Option<(usize, bool)> {
        let slot = self.maps.slot(kind, player, info);
        self.log.get(&(kind, slot, pass)).map(|c| (*c, false))
    }
}
