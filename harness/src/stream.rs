//! Choice stream: every generated case is decoded from a byte string.
//!
//! Decoding is monotone: byte value 0 always selects the simplest alternative and an exhausted
//! stream yields zeros, so proptest's shrinking of the byte vector (delete chunks, lower values)
//! yields structurally smaller cases. The same decoder serves the libFuzzer targets.

#[derive(Clone, Debug)]
pub struct Stream<'a> {
    data: &'a [u8],
    pos: usize,
}

impl<'a> Stream<'a> {
    pub fn new(data: &'a [u8]) -> Self {
        Stream { data, pos: 0 }
    }

    pub fn exhausted(&self) -> bool {
        self.pos >= self.data.len()
    }

    pub fn consumed(&self) -> usize {
        self.pos
    }

    pub fn u8(&mut self) -> u8 {
        let res = self.data.get(self.pos).copied().unwrap_or(0);
        self.pos += 1;
        res
    }

    pub fn u16(&mut self) -> u16 {
        let hi = self.u8() as u16;
        let lo = self.u8() as u16;
        (hi << 8) | lo
    }

    pub fn u32(&mut self) -> u32 {
        ((self.u16() as u32) << 16) | self.u16() as u32
    }

    pub fn u64(&mut self) -> u64 {
        ((self.u32() as u64) << 32) | self.u32() as u64
    }

    /// index in 0..n (n <= 256), monotone in the byte
    pub fn below(&mut self, n: usize) -> usize {
        debug_assert!(n >= 1);
        if n <= 1 {
            return 0;
        }
        if n <= 256 {
            (self.u8() as usize * n) >> 8
        } else {
            ((self.u16() as usize) * n) >> 16
        }
    }

    /// value in lo..=hi
    pub fn range(&mut self, lo: usize, hi: usize) -> usize {
        lo + self.below(hi - lo + 1)
    }

    pub fn bool(&mut self) -> bool {
        self.u8() >= 128
    }

    /// true with probability about num/256
    pub fn chance(&mut self, num: u32) -> bool {
        // high bytes select the rare alternative, so zero is the plain one
        (self.u8() as u32) >= 256 - num.min(256)
    }

    /// pick an index with the given relative weights (first entry is the simplest)
    pub fn weighted(&mut self, weights: &[u32]) -> usize {
        let total: u32 = weights.iter().sum();
        if total == 0 {
            return 0;
        }
        let point = (self.u8() as u32 * total) >> 8;
        let mut acc = 0;
        for (ind, wei) in weights.iter().enumerate() {
            acc += wei;
            if point < acc {
                return ind;
            }
        }
        weights.len() - 1
    }

    /// fraction in [0, 1) with 16 bits
    pub fn unit(&mut self) -> f64 {
        self.u16() as f64 / 65536.0
    }

    /// fraction in (0, 1) that is never exactly on a simple dyadic grid
    pub fn unit_generic(&mut self) -> f64 {
        (self.u16() as f64 + 0.372_549) / 65536.0
    }

    pub fn pick<'b, T>(&mut self, items: &'b [T]) -> &'b T {
        &items[self.below(items.len())]
    }
}

/// Split an input into a head (configuration, profiles, operations) and a tail (the game), so
/// that a large game does not starve the later choices of bytes.
pub fn split(data: &[u8], head: usize) -> (Stream<'_>, Stream<'_>) {
    let cut = head.min(data.len());
    (Stream::new(&data[..cut]), Stream::new(&data[cut..]))
}

/// splitmix style mixing for derived seeds (never used for choices inside a property)
pub fn mix(mut z: u64) -> u64 {
    z = z.wrapping_add(0x9E37_79B9_7F4A_7C15);
    z = (z ^ (z >> 30)).wrapping_mul(0xBF58_476D_1CE4_E5B9);
    z = (z ^ (z >> 27)).wrapping_mul(0x94D0_49BB_1331_11EB);
    z ^ (z >> 31)
}

pub fn mix2(a: u64, b: u64) -> u64 {
    mix(mix(a) ^ b.wrapping_mul(0xD6E8_FEB8_6659_FD93))
}

pub fn hash_bytes(data: &[u8]) -> u64 {
    let mut h = 0xcbf2_9ce4_8422_2325u64;
    for b in data {
        h ^= *b as u64;
        h = h.wrapping_mul(0x0000_0100_0000_01B3);
    }
    mix(h)
}

pub fn to_hex(data: &[u8]) -> String {
    data.iter().map(|b| format!("{:02x}", b)).collect()
}

pub fn from_hex(text: &str) -> Vec<u8> {
    let bytes = text.as_bytes();
    (0..bytes.len() / 2)
        .map(|i| u8::from_str_radix(std::str::from_utf8(&bytes[2 * i..2 * i + 2]).unwrap(), 16).unwrap())
        .collect()
}
