//! verif-harness: property checks for erikbrinkman/cfr (library part, shared by the command line
//! binary and the libFuzzer targets in /verif/fuzz)
pub mod cli;
pub mod gen;
pub mod glue;
pub mod oracle;
pub mod props;
pub mod refcfr;
pub mod runner;
pub mod stream;
pub mod tree;
pub mod validate;
