//! C11 — game construction accepts exactly the documented class of games
use super::common::*;
use crate::gen::{gen_game, GenCfg};
use crate::glue;
use crate::refcfr;
use crate::runner::{Ctx, Prop, Verdict};
use crate::stream::{hash_bytes, Stream};
use crate::tree::{collapse, uniform_profile, Info, T};
use crate::validate::{self, Contract, Rule};
use serde_json::{json, Value};
use std::panic::{catch_unwind, AssertUnwindSafe};

pub struct Case {
    pub tree: T,
    pub mode: &'static str,
    pub ops: Vec<&'static str>,
}

fn indices(tree: &T, pred: &dyn Fn(&T) -> bool) -> Vec<usize> {
    let mut res = Vec::new();
    let mut i = 0;
    tree.walk(&mut |n| {
        if pred(n) {
            res.push(i);
        }
        i += 1;
    });
    res
}

fn pick_node<'a>(s: &mut Stream, tree: &'a mut T, pred: &dyn Fn(&T) -> bool) -> Option<&'a mut T> {
    let cand = indices(tree, pred);
    if cand.is_empty() {
        return None;
    }
    let i = cand[s.below(cand.len())];
    tree.node_mut(i)
}

/// first multi-action node of player p below `node` (depth first), as preorder offset from node
fn first_own_multi(node: &T, p: usize, acts_like: Option<&Vec<String>>) -> Option<Vec<usize>> {
    // returns the child-index path
    fn rec(node: &T, p: usize, acts_like: Option<&Vec<String>>, path: &mut Vec<usize>) -> bool {
        if let T::Player(q, _, acts) = node {
            if *q == p && acts.len() >= 2 {
                let labels: Vec<String> = acts.iter().map(|(a, _)| a.clone()).collect();
                if acts_like.map(|l| *l == labels).unwrap_or(true) {
                    return true;
                }
            }
        }
        for (i, c) in node.children().into_iter().enumerate() {
            path.push(i);
            if rec(c, p, acts_like, path) {
                return true;
            }
            path.pop();
        }
        false
    }
    let mut path = Vec::new();
    if rec(node, p, acts_like, &mut path) {
        Some(path)
    } else {
        None
    }
}

fn follow<'a>(node: &'a mut T, path: &[usize]) -> &'a mut T {
    let mut cur = node;
    for i in path {
        cur = cur.children_mut().into_iter().nth(*i).unwrap();
    }
    cur
}

fn follow_ref<'a>(node: &'a T, path: &[usize]) -> &'a T {
    let mut cur = node;
    for i in path {
        cur = cur.children().into_iter().nth(*i).unwrap();
    }
    cur
}

pub fn apply_op_public(s: &mut Stream, tree: &mut T) -> &'static str {
    apply_op(s, tree)
}

fn apply_op(s: &mut Stream, tree: &mut T) -> &'static str {
    let is_chance = |n: &T| matches!(n, T::Chance(_, o) if o.len() >= 2);
    let is_term = |n: &T| matches!(n, T::Term(_));
    let is_multi = |n: &T| matches!(n, T::Player(_, _, a) if a.len() >= 2);
    match [0, 1, 2, 2, 3, 4, 5, 6, 7, 8, 8, 9, 9, 9, 10, 10, 11, 12, 13][s.below(19)] {
        0 => {
            if let Some(n) = pick_node(s, tree, &|n| is_chance(n) || is_term(n)) {
                *n = T::Chance(if s.bool() { Some("k0".into()) } else { None }, vec![]);
                return "empty-chance";
            }
            "none"
        }
        1 => {
            if let Some(T::Chance(_, outs)) = pick_node(s, tree, &|n| matches!(n, T::Chance(_, o) if !o.is_empty())) {
                let i = s.below(outs.len());
                let k = s.below(8);
                if k >= 6 {
                    // every weight of the node negative: the total is negative as well, so the
                    // normalised values would all be positive again
                    let f = if k == 6 { -1.0 } else { -2.0 };
                    outs.iter_mut().for_each(|o| o.0 *= f);
                    return "all-weights-negative";
                }
                outs[i].0 = [0.0, -1.0, f64::NAN, f64::INFINITY, -0.0, f64::NEG_INFINITY][k];
                return "bad-weight";
            }
            "none"
        }
        2 => {
            // a second chance node under the label of an existing one, with other weights / order /
            // arity (or, as a control, the same ones)
            let first = match pick_node(s, tree, &is_chance) {
                Some(T::Chance(l, outs)) => {
                    *l = Some("clash".into());
                    outs.iter().map(|(w, _)| *w).collect::<Vec<f64>>()
                }
                _ => return "none",
            };
            let total = tree.num_nodes();
            let at = s.below(total);
            let variant = s.below(7);
            if let Some(target) = tree.node_mut(at) {
                let mut w = first.clone();
                let label = match variant {
                    6 => {
                        // an extra outcome so unlikely that the shared prefix normalises to the
                        // very same probabilities
                        let least = w.iter().copied().fold(f64::INFINITY, f64::min);
                        w.push(least * 1e-18);
                        "shared-chance-label-other-arity-negligible-extra"
                    }
                    0 => {
                        w[0] *= 1.5;
                        "shared-chance-label-other-weights"
                    }
                    1 => {
                        w.reverse();
                        "shared-chance-label-reversed"
                    }
                    2 => {
                        w.push(1.0);
                        "shared-chance-label-other-arity"
                    }
                    3 => {
                        w[0] *= 1.0 + 1e-9;
                        "shared-chance-label-1e-9-off"
                    }
                    4 => {
                        w.iter_mut().for_each(|x| *x *= 4.0);
                        "shared-chance-label-rescaled-control"
                    }
                    _ => "shared-chance-label-same-control",
                };
                let old = std::mem::replace(target, T::Term(0.0));
                let mut outs: Vec<(f64, T)> = w.into_iter().map(|x| (x, T::Term(0.125))).collect();
                let slot = s.below(outs.len());
                outs[slot].1 = old;
                *target = T::Chance(Some("clash".into()), outs);
                return label;
            }
            "none"
        }
        3 => {
            if let Some(n) = pick_node(s, tree, &is_term) {
                *n = T::Player(s.below(2), if s.bool() { "i0".into() } else { "fresh".into() }, vec![]);
                return "empty-player";
            }
            "none"
        }
        4 => {
            if let Some(T::Player(_, _, acts)) = pick_node(s, tree, &is_multi) {
                let i = s.below(acts.len());
                acts[i].0 = "renamed".into();
                return "rename-action-at-one-node";
            }
            "none"
        }
        5 => {
            if let Some(T::Player(_, _, acts)) = pick_node(s, tree, &is_multi) {
                acts.swap(0, 1);
                return "reorder-actions-at-one-node";
            }
            "none"
        }
        6 => {
            if let Some(T::Player(_, _, acts)) = pick_node(s, tree, &is_multi) {
                let i = s.below(acts.len());
                acts.remove(i);
                return "drop-action-at-one-node";
            }
            "none"
        }
        7 => {
            if let Some(T::Player(_, _, acts)) = pick_node(s, tree, &is_multi) {
                let i = s.below(acts.len());
                let j = (i + 1) % acts.len();
                acts[j].0 = acts[i].0.clone();
                return "duplicate-action";
            }
            "none"
        }
        8 => {
            // relabel one node to another infoset name of the same player
            let cand = indices(tree, &is_multi);
            if cand.len() >= 2 {
                let a = cand[s.below(cand.len())];
                let b = cand[s.below(cand.len())];
                let src = match tree.node_mut(b) {
                    Some(T::Player(p, name, _)) => Some((*p, name.clone())),
                    _ => None,
                };
                if let (Some((bp, bname)), Some(T::Player(p, name, _))) = (src, tree.node_mut(a)) {
                    if *p == bp && *name != bname {
                        *name = bname;
                        return "relabel-to-other-infoset";
                    }
                }
            }
            "none"
        }
        9 => {
            // the player forgets which action he took: two nodes below different actions of one
            // of his decision nodes are given one infoset
            if let Some(node) = pick_node(s, tree, &is_multi) {
                let p = match node {
                    T::Player(p, _, _) => *p,
                    _ => unreachable!(),
                };
                let veil = s.below(3);
                let mut kids = node.children_mut();
                let n = kids.len();
                let i = s.below(n);
                let j = (i + 1 + s.below(n - 1)) % n;
                for k in [i, j] {
                    let old = std::mem::replace(&mut *kids[k], T::Term(0.0));
                    let forgot = T::Player(p, "forgot".into(), vec![("l".into(), old), ("r".into(), T::Term(1.0))]);
                    *kids[k] = match veil {
                        0 => forgot,
                        1 => T::Player(1 - p, "veil".into(), vec![("u".into(), forgot), ("d".into(), T::Term(-1.0))]),
                        _ => T::Chance(None, vec![(1.0, forgot), (2.0, T::Term(0.5))]),
                    };
                }
                return "forgotten-own-action";
            }
            "none"
        }
        10 => {
            // absent-mindedness: a descendant carries the ancestor's infoset
            if let Some(node) = pick_node(s, tree, &is_multi) {
                let (p, name, labels) = match node {
                    T::Player(p, name, acts) => (*p, name.clone(), acts.iter().map(|(a, _)| a.clone()).collect::<Vec<_>>()),
                    _ => unreachable!(),
                };
                let veil = s.below(2);
                let mut kids = node.children_mut();
                let k = s.below(kids.len());
                let old = std::mem::replace(&mut *kids[k], T::Term(0.0));
                let mut acts: Vec<(String, T)> = labels.iter().map(|l| (l.clone(), T::Term(0.25))).collect();
                acts[0].1 = old;
                let again = T::Player(p, name, acts);
                *kids[k] = if veil == 0 {
                    again
                } else {
                    T::Player(1 - p, "veil".into(), vec![("u".into(), again), ("d".into(), T::Term(-1.0))])
                };
                return "absent-minded";
            }
            "none"
        }
        11 => {
            if let Some(n) = pick_node(s, tree, &is_term) {
                *n = T::Term([f64::NAN, f64::INFINITY, f64::NEG_INFINITY][s.below(3)]);
                return "non-finite-payoff";
            }
            "none"
        }
        12 => {
            // an infoset that is single-action at one node and multi-action at another
            let cand = indices(tree, &is_multi);
            if !cand.is_empty() {
                let a = cand[s.below(cand.len())];
                let (p, name, label) = match tree.node_mut(a) {
                    Some(T::Player(p, name, acts)) => (*p, name.clone(), acts[0].0.clone()),
                    _ => return "none",
                };
                let total = tree.num_nodes();
                let at = s.below(total);
                if let Some(target) = tree.node_mut(at) {
                    let inner = std::mem::replace(target, T::Term(0.0));
                    *target = T::Player(p, name, vec![(label, inner)]);
                    return "single-and-multi-under-one-name";
                }
            }
            "none"
        }
        _ => {
            // a single-action infoset whose only action differs between two nodes
            let cand = indices(tree, &|n| matches!(n, T::Player(_, _, a) if a.len() == 1));
            if cand.len() >= 2 {
                let a = cand[s.below(cand.len())];
                let b = cand[s.below(cand.len())];
                if a != b {
                    let src = match tree.node_mut(b) {
                        Some(T::Player(p, name, _)) => Some((*p, name.clone())),
                        _ => None,
                    };
                    if let (Some((bp, bname)), Some(T::Player(p, name, acts))) = (src, tree.node_mut(a)) {
                        if *p == bp {
                            *name = bname;
                            acts[0].0 = "other-only".into();
                            return "single-infoset-action-differs";
                        }
                    }
                }
            }
            "none"
        }
    }
}

fn soup(s: &mut Stream, depth: usize, budget: &mut isize) -> T {
    *budget -= 1;
    if depth == 0 || *budget < 0 {
        return T::Term(if s.chance(8) { f64::NAN } else { s.below(5) as f64 - 2.0 });
    }
    match s.weighted(&[3, 3, 5, 5]) {
        0 => T::Term(s.below(5) as f64 - 2.0),
        1 => {
            let label = [None, Some("k0"), Some("k1")][s.below(3)].map(|x| x.to_string());
            let arity = s.weighted(&[1, 4, 10, 4]);
            let outs = (0..arity)
                .map(|_| {
                    let w = if s.chance(10) {
                        [0.0, -1.0, f64::NAN][s.below(3)]
                    } else {
                        [1.0, 2.0, 0.5, 3.0][s.below(4)]
                    };
                    (w, soup(s, depth - 1, budget))
                })
                .collect();
            T::Chance(label, outs)
        }
        k => {
            let p = k - 2;
            let wide = s.bool();
            let name = if wide { format!("w{}", s.below(40)) } else { ["a", "b", "c"][s.below(3)].to_string() };
            let arity = s.weighted(&[1, 4, 10, 5]);
            let start = s.below(2);
            let acts = (0..arity)
                .map(|i| {
                    let label = if s.chance(12) { "x".to_string() } else { ["x", "y", "z", "u"][(start + i) % 4].to_string() };
                    (label, soup(s, depth - 1, budget))
                })
                .collect();
            T::Player(p, name, acts)
        }
    }
}

pub fn decode(bytes: &[u8]) -> Case {
    let mut s = Stream::new(bytes);
    match s.weighted(&[60, 120, 60, 1]) {
        3 => {
            // one very wide decision node, with action counts around the limits of 8- and 16-bit
            // indices; two of its actions, a power of two apart, lead to further decisions of the
            // same player which share an infoset (a forgotten own action), or do not
            let p = s.below(2);
            let width = if s.bool() { [255usize, 256, 257][s.below(3)] } else { [65535usize, 65536, 65537, 70000, 131073][s.below(5)] };
            let mut step = 1usize << s.below(18);
            while step >= width {
                step /= 2;
            }
            let i = ((s.u16() as usize) * (width - step)) >> 16;
            let j = i + step;
            let variant = s.below(4);
            let below = |name: &str| T::Player(p, name.to_string(), vec![("l".into(), T::Term(1.0)), ("r".into(), T::Term(-1.0))]);
            let acts: Vec<(String, T)> = (0..width)
                .map(|k| {
                    let child = if k == i {
                        below("x")
                    } else if k == j {
                        below(if variant == 0 { "x" } else { "y" })
                    } else {
                        T::Term(0.0)
                    };
                    (format!("a{}", k), child)
                })
                .collect();
            let wide = T::Player(p, "w".into(), acts);
            // the wide infoset is the mover's first infoset, or his second (an own decision, or one
            // of the other player, comes first), and the shared infoset below it may be shared
            // (variants 0 and 3) or not
            let shares = variant == 0 || variant == 3;
            let acts: Vec<(String, T)> = if variant == 3 {
                // rebuild with the second child sharing "x"
                match wide {
                    T::Player(_, _, mut acts) => {
                        acts[j].1 = below("x");
                        acts
                    }
                    _ => unreachable!(),
                }
            } else {
                match wide {
                    T::Player(_, _, acts) => acts,
                    _ => unreachable!(),
                }
            };
            let wide = T::Player(p, "w".into(), acts);
            let tree = match variant {
                2 => T::Player(1 - p, "first".into(), vec![("go".into(), wide), ("stop".into(), T::Term(0.5))]),
                3 => T::Player(p, "pre".into(), vec![("go".into(), wide), ("stop".into(), T::Term(0.5))]),
                _ => wide,
            };
            Case { tree, mode: "very-wide-node", ops: vec![if shares { "forgotten-own-action" } else { "none" }] }
        }
        0 => {
            let cfg = if s.chance(48) { GenCfg::medium() } else { GenCfg::small() };
            let g = gen_game(&mut s, &cfg);
            Case { tree: g.tree, mode: "valid", ops: vec![] }
        }
        1 => {
            let cfg = if s.chance(32) { GenCfg::medium() } else { GenCfg::small() };
            let g = gen_game(&mut s, &cfg);
            let mut tree = g.tree;
            let nops = 1 + s.weighted(&[5, 2]);
            let mut ops = Vec::new();
            for _ in 0..nops {
                for _try in 0..6 {
                    let op = apply_op(&mut s, &mut tree);
                    if op != "none" {
                        ops.push(op);
                        break;
                    }
                }
            }
            Case { tree, mode: "operators", ops }
        }
        _ => {
            let mut budget = 2 + s.below(40) as isize;
            let depth = 1 + s.below(5);
            Case { tree: soup(&mut s, depth, &mut budget), mode: "soup", ops: vec![] }
        }
    }
}

const KNOWN_KINDS: [&str; 7] = [
    "EmptyChance",
    "NonPositiveChance",
    "ProbabilitiesNotEqual",
    "ImperfectRecall",
    "EmptyPlayer",
    "ActionsNotEqual",
    "ActionsNotUnique",
];

/// checks on a tree the library accepted and the contract accepts
pub fn accepted_checks(id: &str, tree: &T, game: &glue::G, deep: bool) -> Result<(), Verdict> {
    let info = Info::of(tree);
    let collapsed = collapse(tree);
    let rg = refcfr::flatten(&collapsed);
    let dump = game.verif_dump();
    if let Err(m) = glue::zip_dump(&dump, &collapsed, &rg) {
        return Err(Verdict::fail(format!("{}/compact-tree-differs", id), m));
    }
    if game.num_infosets() != info.num_multi() {
        return Err(Verdict::fail(
            format!("{}/num-infosets", id),
            format!("num_infosets() = {} but the tree has {} multi-action infosets", game.num_infosets(), info.num_multi()),
        ));
    }
    // the harness's own helpers scan action lists linearly: a node with 10^5 actions is only
    // checked for acceptance and for its compact tree
    if info.num_nodes > 20_000 {
        return Ok(());
    }
    let uni = uniform_profile(&info);
    super::c01::compare_eval(id, tree, &info, game, &uni)?;
    if deep {
        for method in [refcfr::Method::Full, refcfr::Method::Sampled, refcfr::Method::External] {
            // production samplers on seeded generators: reproducible
            let rec = glue::Recorder::new(glue::Mode::Seeded(info.num_nodes as u64));
            let res = catch_unwind(AssertUnwindSafe(|| glue::solve_hooked(game, &rec, method, 3, 0.0, 1, None)));
            match res {
                Err(_) => return Err(Verdict::fail(format!("{}/solve-panics-on-accepted", id), format!("{:?} panicked on an accepted game", method))),
                Ok(Err(e)) => return Err(Verdict::fail(format!("{}/solve-error-on-accepted", id), format!("{:?}", e))),
                Ok(Ok((strats, _))) => {
                    if let Err(m) = named_valid(&info, &glue::read_named(&strats)) {
                        return Err(Verdict::fail(format!("{}/solve-invalid-profile-on-accepted", id), m));
                    }
                }
            }
        }
    }
    Ok(())
}

pub fn check(bytes: &[u8], _ctx: &Ctx) -> Verdict {
    let case = decode(bytes);
    let (contract, facts) = validate::check(&case.tree);
    let built = catch_unwind(AssertUnwindSafe(|| glue::build(&case.tree)));
    let built = match built {
        Ok(b) => b,
        Err(_) => return Verdict::fail("C11/panic", format!("from_root panicked (contract says {:?})", contract)),
    };
    let mut labels = vec![case.mode];
    labels.extend(case.ops.iter().copied());
    // the same tree presented through iterators with inexact size hints must be judged the same
    // way: same acceptance, an error naming a violated rule as well, the same compact tree
    if case.tree.num_nodes() <= 20_000 {
        let mode = 1 + (hash_bytes(bytes) % 3) as u8;
        let lazy = match catch_unwind(AssertUnwindSafe(|| glue::build_lazy(&case.tree, mode))) {
            Ok(b) => b,
            Err(_) => return Verdict::fail("C11/panic/lazy-iterators", format!("from_root panicked on iterators with size-hint mode {}", mode)),
        };
        match (&built, &lazy) {
            (Ok(a), Ok(b)) => {
                if format!("{:?}", a.verif_dump()) != format!("{:?}", b.verif_dump()) {
                    return Verdict::fail("C11/presentation/lazy-iterators", format!("the compact tree depends on the size hints of the child iterators (mode {})", mode));
                }
            }
            (Err(_), Err(e)) => {
                if let Contract::MustReject(rules) = &contract {
                    let kind = format!("{:?}", e);
                    if KNOWN_KINDS.contains(&kind.as_str()) && !rules.iter().any(|r| format!("{:?}", r) == kind) {
                        return Verdict::fail(
                            format!("C11/wrong-error/lazy-iterators/{}", kind),
                            format!("with size-hint mode {} from_root returns {:?} but the violated rules are {:?}", mode, e, rules),
                        );
                    }
                }
            }
            (a, b) => {
                return Verdict::fail(
                    "C11/presentation/lazy-iterators",
                    format!(
                        "acceptance depends on the size hints of the child iterators (mode {}): exact hints give {:?}, inexact ones {:?}",
                        mode,
                        a.as_ref().map(|_| "Ok").map_err(|e| format!("{:?}", e)),
                        b.as_ref().map(|_| "Ok").map_err(|e| format!("{:?}", e))
                    ),
                )
            }
        }
        labels.push("lazy-iterators-agree");
    }
    let nontrivial;
    match (&contract, &built) {
        (Contract::MustAccept, Err(e)) => {
            return Verdict::fail(
                format!("C11/rejected-valid/{:?}", e),
                format!("from_root returns {:?} for a tree that satisfies every documented rule", e),
            )
        }
        (Contract::MustAccept, Ok(game)) => {
            labels.push("accepted");
            if let Err(v) = accepted_checks("C11", &case.tree, game, true) {
                return v;
            }
            nontrivial = Info::of(&case.tree).has_multinode_infoset();
        }
        (Contract::MustReject(rules), Ok(_)) => {
            let names: Vec<&str> = rules.iter().map(|r| r.name()).collect();
            return Verdict::fail(
                format!("C11/accepted-invalid/{}", names.join("+")),
                format!("from_root accepts a tree that violates {:?}", names),
            );
        }
        (Contract::MustReject(rules), Err(e)) => {
            let name = format!("{:?}", e);
            let ok = rules.iter().any(|r| {
                if *r == Rule::NonFinitePayoff {
                    !KNOWN_KINDS.contains(&name.as_str())
                } else {
                    r.name() == name
                }
            });
            if !ok {
                return Verdict::fail(
                    format!("C11/wrong-error/{}", name),
                    format!("from_root returns {} but the violated rules are {:?}", name, rules.iter().map(|r| r.name()).collect::<Vec<_>>()),
                );
            }
            labels.push("rejected");
            for r in rules.iter() {
                labels.push(r.name());
            }
            nontrivial = facts.cross_branch || facts.player_two || facts.recall;
            if facts.cross_branch {
                labels.push("violation-across-root-branches");
            }
            if facts.player_two {
                labels.push("violation-for-player-two");
            }
        }
        (Contract::DontCare(_), _) => {
            labels.push("dont-care");
            nontrivial = false;
        }
    }
    Verdict::Pass {
        nontrivial: if nontrivial { Some(hash_bytes(case.tree.brief().as_bytes())) } else { None },
        labels,
    }
}

pub fn describe(bytes: &[u8]) -> Value {
    let case = decode(bytes);
    let (contract, _) = validate::check(&case.tree);
    let nodes = case.tree.num_nodes();
    let shown = if nodes <= 3000 { case.tree.brief() } else { format!("({} nodes; mode {})", nodes, case.mode) };
    json!({"mode": case.mode, "operators": case.ops, "tree": shown, "contract": format!("{:?}", contract)})
}

pub fn prop() -> Prop {
    Prop {
        id: "C11",
        check,
        describe,
        rule: "trees from three sources: valid generated games; valid games + 1-2 violation operators (empty chance, bad weight {0,-1,NaN,+-inf,-0}, shared chance label with other weights/order/1e-9 perturbation, empty player, renamed/reordered/dropped/duplicated action at one node, relabel to another infoset, forgotten own action, absent-mindedness, non-finite payoff, single- and multi-action nodes under one name, single infoset with differing action) at stream-chosen nodes for either player; raw label soup over 2-4 label alphabets; rarely one very wide decision node (255..131073 actions) two of whose actions, a power of two apart, lead to decisions that do or do not share an infoset. Every tree is also presented through child iterators with inexact size hints ((0, None), (min(1, n), None), (0, Some(n))) and must be judged identically. Oracle: an independent contract validator (MustAccept / MustReject(set of rules) / DontCare); accepted trees are additionally zipped against the harness's collapsed tree, evaluated against the C01 oracles and solved for 3 iterations by each method. Non-trivial = rejected with the violation across root branches, for player two, or a recall violation; or accepted with a multi-node infoset; distinct by tree.",
        max_len: 700,
        cases_quick: 1_000_000,
        cases_thorough: 20_000_000,
        assumptions: &[
            "don't-care zones: chance probability vectors that are not bit-for-bit equal after normalisation but within 1e-6 relative; a single-outcome chance node sharing a label with a multi-outcome one",
            "an error for a non-finite payoff may be any GameError variant outside the seven existing ones",
        ],
        post: None,
        watchdog_s: 60,
        hang_is_violation: false,
        shrink_iters: 3000,
    }
}
