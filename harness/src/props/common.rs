//! helpers shared by the property modules
use crate::gen::{gen_game, gen_profile, GenCfg};
use crate::glue::{self, Named, G};
use crate::runner::Verdict;
use crate::stream::Stream;
use crate::tree::{Info, Profile, T};
use crate::validate::{self, Contract};
use cfr::Strategies;

pub struct Built {
    pub tree: T,
    pub family: &'static str,
    pub info: Info,
}

pub fn gen_built(s: &mut Stream, cfg: &GenCfg) -> Built {
    let g = gen_game(s, cfg);
    let info = Info::of(&g.tree);
    Built {
        tree: g.tree,
        family: g.family,
        info,
    }
}

/// build the library game for a generated (valid) tree
pub fn build_valid(id: &str, tree: &T) -> Result<G, Verdict> {
    let (contract, _) = validate::check(tree);
    if contract != Contract::MustAccept {
        return Err(Verdict::fail("harness/generated-invalid", format!("generator produced {:?}", contract)));
    }
    glue::build(tree).map_err(|e| {
        Verdict::fail(
            format!("{}/valid-game-rejected", id),
            format!("from_root rejected a contract-conforming game: {:?}", e),
        )
    })
}

pub fn ulp_close(a: f64, b: f64, ulps: f64) -> bool {
    if a == b {
        return true;
    }
    let scale = a.abs().max(b.abs());
    (a - b).abs() <= ulps * scale * f64::EPSILON
}

/// Validity of a named view (C13 predicate without a probability model). Returns the dense
/// profile on success.
pub fn named_valid(info: &Info, named: &Named) -> Result<Profile, String> {
    for p in 0..2 {
        let mut seen = std::collections::BTreeSet::new();
        for (name, acts) in named[p].iter() {
            if !seen.insert(name.clone()) {
                return Err(format!("infoset {:?} of player {} listed twice", name, p + 1));
            }
            let decl = match info.infosets[p].get(name) {
                Some(d) => d,
                None => return Err(format!("unknown infoset {:?} listed for player {}", name, p + 1)),
            };
            if decl.len() == 1 {
                if acts.len() != 1 || acts[0].0 != decl[0] || acts[0].1 != 1.0 {
                    return Err(format!(
                        "single-action infoset {:?} of player {} listed as {:?}, expected [({:?}, 1.0)]",
                        name,
                        p + 1,
                        acts,
                        decl[0]
                    ));
                }
            } else {
                let mut last_pos: Option<usize> = None;
                let mut sum = 0.0;
                for (a, pr) in acts {
                    let pos = match decl.iter().position(|d| d == a) {
                        Some(x) => x,
                        None => return Err(format!("infoset {:?} lists unknown action {:?}", name, a)),
                    };
                    if let Some(lp) = last_pos {
                        if pos <= lp {
                            return Err(format!("infoset {:?} lists actions out of declared order or twice", name));
                        }
                    }
                    last_pos = Some(pos);
                    if !(pr.is_finite() && *pr > 0.0 && *pr <= 1.0 + 1e-9) {
                        return Err(format!("infoset {:?} action {:?} has probability {}", name, a, pr));
                    }
                    sum += pr;
                }
                if !((sum - 1.0).abs() <= 1e-9) {
                    return Err(format!(
                        "probabilities of infoset {:?} of player {} sum to {} ({:?})",
                        name,
                        p + 1,
                        sum,
                        acts
                    ));
                }
            }
        }
        for name in info.infosets[p].keys() {
            if !seen.contains(name) {
                return Err(format!("infoset {:?} of player {} is missing from the named view", name, p + 1));
            }
        }
    }
    glue::to_profile(info, named)
}

/// a profile source for properties about strategies: injected or solver output
pub fn some_strategies<'a>(
    s: &mut Stream,
    game: &'a G,
    info: &Info,
) -> Result<(Strategies<'a, String, String>, Option<Profile>, &'static str), Verdict> {
    match s.weighted(&[5, 1, 1, 1]) {
        0 => {
            let prof = gen_profile(s, info);
            let strats = glue::inject(game, info, &prof).map_err(|e| {
                Verdict::fail("harness/valid-profile-rejected", format!("from_named rejected a valid profile: {:?}", e))
            })?;
            Ok((strats, Some(prof), "injected"))
        }
        k => {
            let method = [crate::refcfr::Method::Full, crate::refcfr::Method::Sampled, crate::refcfr::Method::External][k - 1];
            let iters = [0u64, 1, 5][s.below(3)];
            // production samplers on per-site seeded generators: reproducible from the case bytes
            let rec = glue::Recorder::new(glue::Mode::Seeded(s.u16() as u64));
            let (strats, _) = glue::solve_hooked(game, &rec, method, iters, 0.0, 1, None)
                .map_err(|e| Verdict::fail("harness/solve-error", format!("{:?}", e)))?;
            Ok((strats, None, ["full", "sampled", "external"][k - 1]))
        }
    }
}

pub fn profiles_close(a: &Profile, b: &Profile, ulps: f64) -> Result<(), String> {
    for p in 0..2 {
        for (name, va) in a[p].iter() {
            let vb = b[p].get(name).ok_or_else(|| format!("infoset {} missing", name))?;
            for (x, y) in va.iter().zip(vb.iter()) {
                // normalising n probabilities moves each by up to about n/2 ulp (their sum is off
                // one by that much), so "rounding in the last place" grows with the arity
                if !ulp_close(*x, *y, ulps + va.len() as f64) {
                    return Err(format!("infoset {:?} of player {}: {:?} vs {:?}", name, p + 1, va, vb));
                }
            }
        }
    }
    Ok(())
}
