//! C01 — reported utility and regret of any strategy profile are exact
use crate::gen::{gen_game, gen_profile, GenCfg};
use crate::glue;
use crate::oracle;
use crate::runner::{Ctx, Prop, Verdict};
use crate::stream::{hash_bytes, Stream};
use crate::tree::{pnum, Info, Profile, T};
use crate::validate::{self, Contract};
use serde_json::{json, Value};

pub struct Case {
    pub tree: T,
    pub family: &'static str,
    pub info: Info,
    pub prof: Profile,
}

pub fn decode(bytes: &[u8]) -> Case {
    let (mut h, mut s) = crate::stream::split(bytes, 96);
    let cfg = if h.chance(64) { GenCfg::medium() } else { GenCfg::small() };
    let g = gen_game(&mut s, &cfg);
    let info = Info::of(&g.tree);
    let prof = gen_profile(&mut h, &info);
    Case {
        tree: g.tree,
        family: g.family,
        info,
        prof,
    }
}

fn has_nested(tree: &T) -> bool {
    fn rec(node: &T, seen: [bool; 2]) -> bool {
        match node {
            T::Term(_) => false,
            T::Chance(_, outs) => outs.iter().any(|(_, t)| rec(t, seen)),
            T::Player(p, _, acts) => {
                let mut next = seen;
                if acts.len() >= 2 {
                    if seen[*p] {
                        return true;
                    }
                    next[*p] = true;
                }
                acts.iter().any(|(_, t)| rec(t, next))
            }
        }
    }
    rec(tree, [false; 2])
}

/// compare the library's evaluation of `prof` with the oracles; shared with other properties
pub fn compare_eval(id: &str, tree: &T, info: &Info, game: &glue::G, prof: &Profile) -> Result<oracle::Eval, Verdict> {
    let eval = match oracle::evaluate(tree, info, prof, 400_000) {
        Ok(e) => e,
        Err(msg) => return Err(Verdict::fail(format!("{}/oracles-disagree", id), msg)),
    };
    let strats = match glue::inject(game, info, prof) {
        Ok(s) => s,
        Err(e) => {
            return Err(Verdict::fail(
                format!("{}/valid-profile-rejected", id),
                format!("from_named rejected a valid profile: {:?}", e),
            ))
        }
    };
    let got = strats.get_info();
    let tol = 1e-9 * oracle::scale_of(tree);
    let u1 = got.player_utility(pnum(0));
    let u2 = got.player_utility(pnum(1));
    if !(u1 - eval.util).abs().le(&tol) {
        return Err(Verdict::fail(
            format!("{}/utility", id),
            format!("player one utility {} but the expected terminal payoff is {}", u1, eval.util),
        ));
    }
    if !(u2 + eval.util).abs().le(&tol) {
        return Err(Verdict::fail(
            format!("{}/utility-two", id),
            format!("player two utility {} but minus the expected terminal payoff is {}", u2, -eval.util),
        ));
    }
    for p in 0..2 {
        let r = got.player_regret(pnum(p));
        if !(r - eval.regret[p]).abs().le(&tol) {
            return Err(Verdict::fail(
                format!("{}/regret-player-{}", id, p + 1),
                format!(
                    "player {} regret reported {} but the best unilateral deviation gains {} (best response {}, utility {}, exhaustive oracle: {})",
                    p + 1,
                    r,
                    eval.regret[p],
                    eval.br[p],
                    if p == 0 { eval.util } else { -eval.util },
                    eval.exhaustive[p]
                ),
            ));
        }
        if !(r >= 0.0) {
            return Err(Verdict::fail(format!("{}/regret-negative", id), format!("regret {} of player {}", r, p + 1)));
        }
    }
    let tot = got.regret();
    let want = f64::max(got.player_regret(pnum(0)), got.player_regret(pnum(1)));
    if tot != want {
        return Err(Verdict::fail(
            format!("{}/total-regret", id),
            format!("total regret {} is not the larger player regret {}", tot, want),
        ));
    }
    Ok(eval)
}

pub fn check(bytes: &[u8], _ctx: &Ctx) -> Verdict {
    let case = decode(bytes);
    let (contract, _) = validate::check(&case.tree);
    if contract != Contract::MustAccept {
        return Verdict::fail("harness/generated-invalid", format!("generator produced {:?}", contract));
    }
    let game = match glue::build(&case.tree) {
        Ok(g) => g,
        Err(e) => {
            return Verdict::fail(
                "C01/valid-game-rejected",
                format!("from_root rejected a contract-conforming game: {:?}", e),
            )
        }
    };
    let eval = match compare_eval("C01", &case.tree, &case.info, &game, &case.prof) {
        Ok(e) => e,
        Err(v) => return v,
    };
    let mut labels = vec![case.family];
    if case.info.has_multinode_infoset() {
        labels.push("multi-node-infoset");
    }
    let nested = has_nested(&case.tree);
    if nested {
        labels.push("nested-infosets");
    }
    if case.info.num_single_chance + case.info.num_single_player > 0 {
        labels.push("collapsed-nodes");
    }
    if eval.exhaustive[0] && eval.exhaustive[1] {
        labels.push("exhaustive-oracle");
    }
    if case.prof.iter().any(|m| m.values().any(|v| v.iter().any(|x| *x == 0.0))) {
        labels.push("zero-probability-action");
    }
    let positive = eval.regret[0] > 0.0 || eval.regret[1] > 0.0;
    if positive {
        labels.push("positive-regret");
    }
    let nontrivial = (case.info.has_multinode_infoset() || nested) && positive;
    Verdict::Pass {
        nontrivial: if nontrivial {
            Some(hash_bytes(format!("{}|{:?}", case.tree.brief(), case.prof).as_bytes()))
        } else {
            None
        },
        labels,
    }
}

pub fn describe(bytes: &[u8]) -> Value {
    let case = decode(bytes);
    json!({"family": case.family, "game": case.tree.brief(), "profile": crate::tree::profile_json(&case.prof)})
}

pub fn prop() -> Prop {
    Prop {
        id: "C01",
        check,
        describe,
        rule: "games from the observation-model generator and the structured families (matrix, chain, shared infoset, rare chance, dominated/duplicated actions, one player, no decision, Kuhn), with degenerate-node decoration, x generated behavioural profiles (uniform, pure, sparse with exact zeros, random, one tiny entry); oracle: path-enumeration utility and best response by exhaustive enumeration of pure strategies (cross-checked against a sequence-form best response; the latter alone on larger games). Non-trivial = some infoset has >= 2 nodes or a player has nested infosets, and some player's true regret is > 0; distinct by (tree, profile).",
        max_len: 700,
        cases_quick: 20_000,
        cases_thorough: 1_000_000,
        assumptions: &[
            "tolerance 1e-9 * max(1, max |payoff|)",
            "payoff and weight magnitudes within 1e-6 .. 1e6; trees of depth <= 200",
        ],
        post: None,
        watchdog_s: 60,
        shrink_iters: 3000,
    }
}
