//! C01 — reported utility and regret of any strategy profile are exact
use crate::gen::{gen_game, gen_profile, GenCfg};
use crate::glue;
use crate::oracle;
use crate::runner::{Ctx, Prop, Verdict};
use crate::stream::{hash_bytes, Stream};
use crate::tree::{pnum, Info, Profile, T};
use crate::validate::{self, Contract};
use serde_json::{json, Value};

#[derive(Clone, Debug)]
pub enum Op {
    Truncate(f64),
    Clone,
    Reimport,
    Evaluate,
}

pub struct Case {
    pub tree: T,
    pub family: &'static str,
    pub info: Info,
    pub prof: Profile,
    /// operations applied to one Strategies object, which is re-evaluated after each
    pub ops: Vec<Op>,
    pub eval_first: bool,
}

pub fn decode(bytes: &[u8]) -> Case {
    let (mut h, mut s) = crate::stream::split(bytes, 96);
    let cfg = if h.chance(64) { GenCfg::medium() } else { GenCfg::small() };
    let g = gen_game(&mut s, &cfg);
    let info = Info::of(&g.tree);
    let prof = gen_profile(&mut h, &info);
    // the history comes last in the head so that earlier decodings keep their meaning
    let nops = if h.bool() { 1 + h.below(4) } else { 0 };
    let eval_first = h.bool();
    let ops = (0..nops)
        .map(|_| match h.below(4) {
            0 => Op::Evaluate,
            1 => Op::Clone,
            2 => Op::Reimport,
            _ => Op::Truncate(h.unit()),
        })
        .collect();
    Case {
        tree: g.tree,
        family: g.family,
        info,
        prof,
        ops,
        eval_first,
    }
}

fn has_nested(tree: &T) -> bool {
    fn rec(node: &T, seen: [bool; 2]) -> bool {
        match node {
            T::Term(_) => false,
            T::Chance(_, outs) => outs.iter().any(|(_, t)| rec(t, seen)),
            T::Player(p, _, acts) => {
                let mut next = seen;
                if acts.len() >= 2 {
                    if seen[*p] {
                        return true;
                    }
                    next[*p] = true;
                }
                acts.iter().any(|(_, t)| rec(t, next))
            }
        }
    }
    rec(tree, [false; 2])
}

/// compare the library's evaluation of `prof` with the oracles; shared with other properties
pub fn compare_eval(id: &str, tree: &T, info: &Info, game: &glue::G, prof: &Profile) -> Result<oracle::Eval, Verdict> {
    let strats = match glue::inject(game, info, prof) {
        Ok(s) => s,
        Err(e) => {
            return Err(Verdict::fail(
                format!("{}/valid-profile-rejected", id),
                format!("from_named rejected a valid profile: {:?}", e),
            ))
        }
    };
    compare_eval_of(id, tree, info, &strats, prof)
}

/// compare what `strats` reports about itself with the oracles' evaluation of `prof` (the dense
/// profile the caller read from it or injected into it)
pub fn compare_eval_of(
    id: &str,
    tree: &T,
    info: &Info,
    strats: &cfr::Strategies<'_, String, String>,
    prof: &Profile,
) -> Result<oracle::Eval, Verdict> {
    let eval = match oracle::evaluate(tree, info, prof, 400_000) {
        Ok(e) => e,
        Err(msg) => return Err(Verdict::fail(format!("{}/oracles-disagree", id), msg)),
    };
    let got = strats.get_info();
    let tol = 1e-9 * oracle::scale_of(tree);
    let u1 = got.player_utility(pnum(0));
    let u2 = got.player_utility(pnum(1));
    if !(u1 - eval.util).abs().le(&tol) {
        return Err(Verdict::fail(
            format!("{}/utility", id),
            format!("player one utility {} but the expected terminal payoff is {}", u1, eval.util),
        ));
    }
    if !(u2 + eval.util).abs().le(&tol) {
        return Err(Verdict::fail(
            format!("{}/utility-two", id),
            format!("player two utility {} but minus the expected terminal payoff is {}", u2, -eval.util),
        ));
    }
    for p in 0..2 {
        let r = got.player_regret(pnum(p));
        if !(r - eval.regret[p]).abs().le(&tol) {
            return Err(Verdict::fail(
                format!("{}/regret-player-{}", id, p + 1),
                format!(
                    "player {} regret reported {} but the best unilateral deviation gains {} (best response {}, utility {}, exhaustive oracle: {})",
                    p + 1,
                    r,
                    eval.regret[p],
                    eval.br[p],
                    if p == 0 { eval.util } else { -eval.util },
                    eval.exhaustive[p]
                ),
            ));
        }
        if !(r >= 0.0) {
            return Err(Verdict::fail(format!("{}/regret-negative", id), format!("regret {} of player {}", r, p + 1)));
        }
    }
    let tot = got.regret();
    let want = f64::max(got.player_regret(pnum(0)), got.player_regret(pnum(1)));
    if tot != want {
        return Err(Verdict::fail(
            format!("{}/total-regret", id),
            format!("total regret {} is not the larger player regret {}", tot, want),
        ));
    }
    Ok(eval)
}

pub fn check(bytes: &[u8], _ctx: &Ctx) -> Verdict {
    let case = decode(bytes);
    let (contract, _) = validate::check(&case.tree);
    if contract != Contract::MustAccept {
        return Verdict::fail("harness/generated-invalid", format!("generator produced {:?}", contract));
    }
    let game = match glue::build(&case.tree) {
        Ok(g) => g,
        Err(e) => {
            return Verdict::fail(
                "C01/valid-game-rejected",
                format!("from_root rejected a contract-conforming game: {:?}", e),
            )
        }
    };
    let eval = match compare_eval("C01", &case.tree, &case.info, &game, &case.prof) {
        Ok(e) => e,
        Err(v) => return v,
    };
    let mut labels = vec![case.family];
    // evaluation history: the same object is evaluated again after being cloned, truncated or
    // re-imported; each report must be exact for the profile the object holds at that moment
    if !case.ops.is_empty() {
        let mut cur = match glue::inject(&game, &case.info, &case.prof) {
            Ok(s) => s,
            Err(e) => return Verdict::fail("C01/valid-profile-rejected", format!("{:?}", e)),
        };
        if case.eval_first {
            let _ = cur.get_info();
        }
        for op in case.ops.iter() {
            match op {
                Op::Truncate(frac) => {
                    // a threshold from the profile's own probabilities, so that something is cut
                    let named = glue::read_named(&cur);
                    let mut ps: Vec<f64> = named.iter().flat_map(|pl| pl.iter().flat_map(|(_, a)| a.iter().map(|(_, p)| *p))).filter(|p| *p < 1.0).collect();
                    ps.sort_by(|a, b| a.partial_cmp(b).unwrap());
                    let h = if ps.is_empty() { 0.25 } else { ps[((ps.len() - 1) as f64 * frac) as usize] };
                    cur.truncate(h);
                    labels.push("history-truncate");
                }
                Op::Clone => {
                    cur = cur.clone();
                    labels.push("history-clone");
                }
                Op::Reimport => {
                    cur = match game.from_named(cur.as_named()) {
                        Ok(c) => c,
                        Err(e) => return Verdict::fail("C01/reimport-rejected", format!("{:?}", e)),
                    };
                    labels.push("history-reimport");
                }
                Op::Evaluate => {
                    labels.push("history-evaluate");
                }
            }
            let named = glue::read_named(&cur);
            let now = match glue::to_profile(&case.info, &named) {
                Ok(p) => p,
                Err(m) => return Verdict::fail("C01/history/view-invalid", m),
            };
            if now.iter().any(|pl| pl.values().any(|v| !((v.iter().sum::<f64>() - 1.0).abs() < 1e-9))) {
                // not a profile any more: C18's business, nothing to evaluate here
                break;
            }
            if let Err(v) = compare_eval_of("C01/history", &case.tree, &case.info, &cur, &now) {
                return v;
            }
        }
    }
    if case.info.has_multinode_infoset() {
        labels.push("multi-node-infoset");
    }
    let nested = has_nested(&case.tree);
    if nested {
        labels.push("nested-infosets");
    }
    if case.info.num_single_chance + case.info.num_single_player > 0 {
        labels.push("collapsed-nodes");
    }
    if eval.exhaustive[0] && eval.exhaustive[1] {
        labels.push("exhaustive-oracle");
    }
    if case.prof.iter().any(|m| m.values().any(|v| v.iter().any(|x| *x == 0.0))) {
        labels.push("zero-probability-action");
    }
    let positive = eval.regret[0] > 0.0 || eval.regret[1] > 0.0;
    if positive {
        labels.push("positive-regret");
    }
    let nontrivial = (case.info.has_multinode_infoset() || nested) && positive;
    Verdict::Pass {
        nontrivial: if nontrivial {
            Some(hash_bytes(format!("{}|{:?}", case.tree.brief(), case.prof).as_bytes()))
        } else {
            None
        },
        labels,
    }
}

pub fn describe(bytes: &[u8]) -> Value {
    let case = decode(bytes);
    json!({"family": case.family, "game": case.tree.brief(), "profile": crate::tree::profile_json(&case.prof), "history": format!("{:?}", case.ops), "evaluated_before_history": case.eval_first})
}

pub fn prop() -> Prop {
    Prop {
        id: "C01",
        check,
        describe,
        rule: "games from the observation-model generator and the structured families (matrix, chain, shared infoset, rare chance, dominated/duplicated actions, one player, no decision, Kuhn), with degenerate-node decoration, x generated behavioural profiles (uniform, pure, sparse with exact zeros, random, one tiny entry); oracle: path-enumeration utility and best response by exhaustive enumeration of pure strategies (cross-checked against a sequence-form best response; the latter alone on larger games); in half the cases an evaluation history follows: 1-4 operations from {evaluate again, clone, re-import the named view, truncate at one of the profile's own probabilities} on one Strategies object, whose report after every step must be exact for the profile it then holds. Non-trivial = some infoset has >= 2 nodes or a player has nested infosets, and some player's true regret is > 0; distinct by (tree, profile).",
        max_len: 700,
        cases_quick: 400_000,
        cases_thorough: 8_000_000,
        assumptions: &[
            "tolerance 1e-9 * max(1, max |payoff|)",
            "payoff and weight magnitudes within 1e-6 .. 1e6; trees of depth <= 200",
        ],
        post: None,
        watchdog_s: 60,
        hang_is_violation: false,
        shrink_iters: 3000,
    }
}
