//! C14 — strategy import validates, normalises, and both import paths agree
use super::common::*;
use crate::gen::{gen_profile, GenCfg};
use crate::glue::{self, Named};
use crate::runner::{Ctx, Prop, Verdict};
use crate::stream::{hash_bytes, Stream};
use crate::tree::{Info, Profile};
use cfr::StratError;
use serde_json::{json, Value};
use std::collections::{BTreeMap, BTreeSet};

const SPECIAL: [f64; 9] = [-1.0, -0.0, 0.0, 1e-300, 1e100, f64::NAN, f64::INFINITY, f64::NEG_INFINITY, 5e-324];

/// the documented import rules, entries processed in order, last write wins
pub fn model(info: &Info, input: &Named) -> Result<Profile, BTreeSet<&'static str>> {
    let mut errs: BTreeSet<&'static str> = BTreeSet::new();
    let mut prof: Profile = Default::default();
    for p in 0..2 {
        let mut dense: BTreeMap<String, Vec<f64>> =
            info.multi(p).map(|(k, a)| (k.clone(), vec![0.0; a.len()])).collect();
        let mut seen: BTreeMap<String, bool> = info.singles(p).map(|(k, _)| (k.clone(), false)).collect();
        for (name, acts) in input[p].iter() {
            match info.infosets[p].get(name) {
                None => {
                    errs.insert("InvalidInfoset");
                }
                Some(decl) if decl.len() >= 2 => {
                    for (a, w) in acts {
                        let okw = *w >= 0.0 && w.is_finite();
                        if !okw {
                            errs.insert("InvalidProbability");
                        }
                        match decl.iter().position(|d| d == a) {
                            None => {
                                errs.insert("InvalidAction");
                            }
                            Some(ind) => {
                                if okw {
                                    dense.get_mut(name).unwrap()[ind] = *w;
                                }
                            }
                        }
                    }
                }
                Some(decl) => {
                    for (a, w) in acts {
                        let okw = *w >= 0.0 && w.is_finite();
                        if !okw {
                            errs.insert("InvalidProbability");
                        }
                        if *a != decl[0] {
                            errs.insert("InvalidAction");
                        } else if okw {
                            seen.insert(name.clone(), true);
                        }
                    }
                }
            }
        }
        for (name, v) in dense.iter() {
            let total: f64 = v.iter().sum();
            if total == 0.0 {
                errs.insert("UninitializedInfoset");
            } else {
                prof[p].insert(name.clone(), v.iter().map(|x| x / total).collect());
            }
        }
        if seen.values().any(|s| !*s) {
            errs.insert("UninitializedInfoset");
        }
    }
    if errs.is_empty() {
        Ok(prof)
    } else {
        Err(errs)
    }
}

fn err_name(e: &StratError) -> String {
    format!("{:?}", e)
}

pub struct Case {
    pub built: Built,
    pub input: Named,
    pub faults: Vec<&'static str>,
}

pub fn decode(bytes: &[u8]) -> Case {
    let (mut s, mut gs) = crate::stream::split(bytes, 160);
    let built = gen_built(&mut gs, &GenCfg::small());
    let info = &built.info;
    let prof = gen_profile(&mut s, info);
    let mut input = glue::named_input(info, &prof);
    let mut faults = Vec::new();
    // unnormalised weights
    if s.bool() {
        let c = [2.0, 0.125, 1e-200, 1e90, 3.7][s.below(5)];
        for pl in input.iter_mut() {
            for (_, acts) in pl.iter_mut() {
                for (_, w) in acts.iter_mut() {
                    *w *= c;
                }
            }
        }
        faults.push("unnormalised");
    }
    let nedits = s.weighted(&[2, 4, 3, 2, 1]);
    for _ in 0..nedits {
        let p = s.below(2);
        let n = input[p].len();
        match s.below(12) {
            0 if n >= 2 => {
                let i = s.below(n);
                let j = s.below(n);
                input[p].swap(i, j);
                faults.push("reorder");
            }
            1 if n >= 1 => {
                // duplicate an infoset entry, possibly with other weights, at the end or the front
                let i = s.below(n);
                let mut copy = input[p][i].clone();
                for (_, w) in copy.1.iter_mut() {
                    if s.bool() {
                        *w = s.unit();
                    }
                }
                if s.bool() {
                    copy.1.truncate(1);
                }
                if s.bool() {
                    input[p].push(copy);
                } else {
                    input[p].insert(0, copy);
                }
                faults.push("duplicate-infoset");
            }
            2 if n >= 1 => {
                let i = s.below(n);
                if !input[p][i].1.is_empty() {
                    let j = s.below(input[p][i].1.len());
                    let mut copy = input[p][i].1[j].clone();
                    copy.1 = if s.bool() { s.unit() } else { 0.0 };
                    input[p][i].1.push(copy);
                    faults.push("duplicate-action");
                }
            }
            3 if n >= 1 => {
                let i = s.below(n);
                input[p].remove(i);
                faults.push("drop-infoset");
            }
            4 if n >= 1 => {
                let i = s.below(n);
                input[p][i].1.clear();
                faults.push("empty-action-list");
            }
            5 if n >= 1 => {
                let i = s.below(n);
                for (_, w) in input[p][i].1.iter_mut() {
                    *w = 0.0;
                }
                faults.push("all-zero");
            }
            6 => {
                input[p].push(("nowhere".into(), vec![("a".into(), 1.0)]));
                faults.push("unknown-infoset");
            }
            7 => {
                // an infoset of the other player
                let other: Vec<_> = input[1 - p].iter().cloned().collect();
                if !other.is_empty() {
                    let e = other[s.below(other.len())].clone();
                    input[p].push(e);
                    faults.push("other-players-infoset");
                }
            }
            8 if n >= 1 => {
                let i = s.below(n);
                input[p][i].1.push(("bogus".into(), s.unit()));
                faults.push("unknown-action");
            }
            9 if n >= 2 => {
                let i = s.below(n);
                let j = s.below(n);
                if i != j && !input[p][j].1.is_empty() {
                    let a = input[p][j].1[0].clone();
                    input[p][i].1.push(a);
                    faults.push("action-of-other-infoset");
                }
            }
            10 if n >= 1 => {
                let i = s.below(n);
                if !input[p][i].1.is_empty() {
                    let j = s.below(input[p][i].1.len());
                    input[p][i].1[j].1 = SPECIAL[s.below(SPECIAL.len())];
                    faults.push("special-weight");
                }
            }
            _ if n >= 1 => {
                let i = s.below(n);
                if input[p][i].1.len() >= 2 {
                    let j = s.below(input[p][i].1.len());
                    input[p][i].1.remove(j);
                    faults.push("drop-action");
                }
            }
            _ => (),
        }
    }
    Case { built, input, faults }
}

pub fn check(bytes: &[u8], _ctx: &Ctx) -> Verdict {
    let case = decode(bytes);
    let game = match build_valid("C14", &case.built.tree) {
        Ok(g) => g,
        Err(v) => return v,
    };
    let info = &case.built.info;
    let want = model(info, &case.input);
    let fast = game.from_named(case.input.clone());
    let slow = game.from_named_eq(case.input.clone());
    match (&fast, &slow) {
        (Ok(a), Ok(b)) => {
            if a != b {
                return Verdict::fail(
                    "C14/paths-differ-ok",
                    format!("from_named and from_named_eq both succeed with different profiles: {:?} vs {:?}", glue::read_named(a), glue::read_named(b)),
                );
            }
        }
        (Err(a), Err(b)) => {
            if a != b {
                return Verdict::fail(
                    "C14/paths-differ-err",
                    format!("from_named returns {:?} but from_named_eq returns {:?}", a, b),
                );
            }
        }
        (a, b) => {
            return Verdict::fail(
                "C14/paths-differ",
                format!(
                    "from_named: {} but from_named_eq: {}",
                    a.as_ref().map(|_| "Ok".to_string()).unwrap_or_else(|e| err_name(e)),
                    b.as_ref().map(|_| "Ok".to_string()).unwrap_or_else(|e| err_name(e))
                ),
            )
        }
    }
    let mut labels: Vec<&'static str> = case.faults.clone();
    match (&fast, &want) {
        (Ok(strats), Ok(model_prof)) => {
            let named = glue::read_named(strats);
            let prof = match named_valid(info, &named) {
                Ok(p) => p,
                Err(m) => return Verdict::fail("C14/accepted-profile-invalid", m),
            };
            if let Err(m) = profiles_close(model_prof, &prof, 2.0) {
                return Verdict::fail("C14/normalisation", format!("imported probabilities differ from weight/total: {}", m));
            }
            labels.push("accepted");
        }
        (Err(e), Err(kinds)) => {
            let name = err_name(e);
            if !kinds.iter().any(|k| *k == name) {
                return Verdict::fail(
                    "C14/wrong-error-kind",
                    format!("import fails with {} but the violated rules are {:?}", name, kinds),
                );
            }
            labels.push("rejected");
        }
        (Ok(_), Err(kinds)) => {
            return Verdict::fail(
                format!("C14/accepted-invalid/{}", kinds.iter().next().unwrap()),
                format!("import succeeds although the input violates {:?}", kinds),
            )
        }
        (Err(e), Ok(_)) => {
            return Verdict::fail(
                format!("C14/rejected-valid/{}", err_name(e)),
                format!("import fails with {:?} although the input satisfies every documented rule", e),
            )
        }
    }
    let nontrivial = !case.faults.is_empty() && info.num_multi() >= 1;
    Verdict::Pass {
        nontrivial: if nontrivial {
            Some(hash_bytes(format!("{}|{:?}", case.built.tree.brief(), case.input).as_bytes()))
        } else {
            None
        },
        labels,
    }
}

pub fn describe(bytes: &[u8]) -> Value {
    let case = decode(bytes);
    json!({"game": case.built.tree.brief(), "input": format!("{:?}", case.input), "edits": case.faults})
}

pub fn prop() -> Prop {
    Prop {
        id: "C14",
        check,
        describe,
        rule: "small generated games x a valid named profile (optionally unnormalised by a constant) x 0-4 stream-chosen edits from {reorder, duplicate infoset entry with other weights, duplicate action, drop infoset, empty action list, all zeros, unknown infoset, other player's infoset, unknown action, action of another infoset, special weight in {-1,-0,0,1e-300,1e100,NaN,+-inf,5e-324}, drop action}; oracle: an independent model of the documented rules (entries in order, last write wins) giving Ok(profile) or the set of violated rules' kinds; from_named and from_named_eq must agree exactly. Non-trivial = the game has a multi-action infoset and the input carries at least one edit or unnormalised weights; distinct by (tree, input).",
        max_len: 700,
        cases_quick: 1_500_000,
        cases_thorough: 20_000_000,
        assumptions: &["weights within 1e-300 .. 1e100 (no overflow of a sum of weights)", "normalised probabilities compared within 2 ulp"],
        post: None,
        watchdog_s: 60,
        hang_is_violation: false,
        shrink_iters: 3000,
    }
}
