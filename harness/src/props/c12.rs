//! C12 — results do not depend on how the game is presented
use super::common::*;
use super::solvecmp::*;
use crate::gen::{gen_profile, GenCfg};
use crate::glue::{self, Decision};
use crate::oracle;
use crate::refcfr::{Method, Params, TieRule};
use crate::runner::{Ctx, Prop, Verdict};
use crate::stream::{hash_bytes, Stream};
use crate::tree::{pnum, uniform_profile, Info, Profile, T};
use cfr::SolveMethod;
use serde_json::{json, Value};

#[derive(Clone, Debug)]
pub struct Xf {
    pub rename: bool,
    pub scale: f64,
    pub shift: f64,
    pub swap: bool,
    pub rescale_chance: bool,
    pub insert: bool,
    pub remove: bool,
    /// every arithmetic change is a multiplication by a power of two (or none at all)
    pub exact: bool,
    pub inserted: usize,
    pub removed: usize,
}

fn ren_info(x: &Xf, name: &str) -> String {
    if x.rename {
        format!("{}~", name.chars().rev().collect::<String>())
    } else {
        name.to_string()
    }
}

fn ren_act(x: &Xf, name: &str) -> String {
    if x.rename {
        format!("<{}>", name)
    } else {
        name.to_string()
    }
}

fn transform(s: &mut Stream, x: &mut Xf, node: &T, fresh: &mut usize) -> T {
    let inner = match node {
        T::Term(p) => {
            let v = x.scale * *p + x.shift;
            T::Term(if x.swap { -v } else { v })
        }
        T::Chance(label, outs) => {
            if x.remove && outs.len() == 1 && s.bool() {
                x.removed += 1;
                return transform(s, x, &outs[0].1, fresh);
            }
            let c = if x.rescale_chance {
                if label.is_some() {
                    // nodes of a shared infoset are compared after normalisation: powers of two keep
                    // the normalised vector bit-identical
                    [1.0, 2.0, 0.25, 8.0][s.below(4)]
                } else if x.exact {
                    [1.0, 2.0, 0.5, 16.0, 4.909093465297727e-91, 2.037035976334486e90][s.below(6)]
                } else {
                    // incl. 2^-1030 (subnormal weights) and magnitudes far from one
                    [1.0, 3.0, 0.1, 7.5, 1e3, 8.691694759794e-311, 1e-300, 1e200][s.below(8)]
                }
            } else {
                1.0
            };
            // the rescaled weights have to remain ordinary positive numbers with a finite sum
            // (and normal ones where bit-identical normalisation is relied upon)
            // (a product that lands among the subnormals is kept only if it is exact, e.g. 3 * 2^-1030)
            let lo = if label.is_some() || x.exact { f64::MIN_POSITIVE * 4.0 } else { 0.0 };
            let fits = outs.iter().all(|(w, _)| w * c > lo && w * c < 1e300 && (w * c >= 1e-290 || (w * c) / c == *w))
                && outs.iter().map(|(w, _)| w * c).sum::<f64>() < 1e300;
            let c = if fits { c } else { 1.0 };
            T::Chance(
                label.as_ref().map(|l| if x.rename { format!("ch_{}", l) } else { l.clone() }),
                outs.iter().map(|(w, t)| (w * c, transform(s, x, t, fresh))).collect(),
            )
        }
        T::Player(p, name, acts) => {
            if x.remove && acts.len() == 1 && s.bool() {
                x.removed += 1;
                return transform(s, x, &acts[0].1, fresh);
            }
            let q = if x.swap { 1 - *p } else { *p };
            T::Player(
                q,
                ren_info(x, name),
                acts.iter().map(|(a, t)| (ren_act(x, a), transform(s, x, t, fresh))).collect(),
            )
        }
    };
    if x.insert && s.chance(40) {
        x.inserted += 1;
        *fresh += 1;
        if s.bool() {
            T::Chance(if s.bool() { None } else { Some(format!("ins{}", *fresh)) }, vec![([1.0, 0.3, 5.0][s.below(3)], inner)])
        } else {
            T::Player(s.below(2), format!("ins{}", *fresh), vec![("only".into(), inner)])
        }
    } else {
        inner
    }
}

pub struct Case {
    pub built: Built,
    pub xf: Xf,
    pub other: T,
    pub prof: Profile,
    pub params: Params,
    pub params_name: &'static str,
    pub iters: u64,
}

pub fn decode(bytes: &[u8]) -> Case {
    let (mut s, mut gs) = crate::stream::split(bytes, 200);
    let mut cfg = if s.chance(48) { GenCfg::medium() } else { GenCfg::small() };
    cfg.max_nodes = cfg.max_nodes.min(150);
    if s.bool() {
        cfg.generic = true;
    }
    let built = gen_built(&mut gs, &cfg);
    let scale_base = oracle::scale_of(&built.tree);
    let exact = s.bool();
    // scaling payoffs far away from one is only meaningful while nothing leaves the range of a
    // double: trees whose own numbers are already extreme get moderate factors
    let moderate_tree = {
        let mut ok = true;
        built.tree.walk(&mut |n| match n {
            T::Term(p) => ok &= *p == 0.0 || (p.abs() >= 1e-9 && p.abs() <= 1e9),
            T::Chance(_, outs) => {
                let total: f64 = outs.iter().map(|(w, _)| *w).sum();
                ok &= outs.iter().all(|(w, _)| w / total >= 1e-12);
            }
            _ => (),
        });
        ok && built.tree.depth() <= 12
    };
    let scale = if s.bool() {
        1.0
    } else if exact {
        // powers of two, also far from one: 2^-60, 2^-300, 2^60, 2^200
        [2.0, 0.5, 1024.0, 8.673617379884035e-19, 4.909093465297727e-91, 1152921504606846976.0, 1.6069380442589903e60][s.below(if moderate_tree { 7 } else { 3 })]
    } else {
        [3.0, 0.1, 1e3, 0.37, 1e-20, 1e15][s.below(if moderate_tree { 6 } else { 4 })]
    };
    let shift = if exact || s.bool() { 0.0 } else { scale_base * scale * [1.0, -2.5, 0.5][s.below(3)] };
    let mut xf = Xf {
        rename: s.bool(),
        scale,
        shift,
        swap: s.bool(),
        rescale_chance: s.bool(),
        insert: s.bool(),
        remove: s.bool(),
        // "changes no rounding" presupposes that nothing is near the subnormal range
        exact: exact && shift == 0.0 && moderate_tree,
        inserted: 0,
        removed: 0,
    };
    let (params, params_name) = loop {
        let (p, n) = pick_moderate_params(&mut s);
        if p.w == 0.0 || p.w.is_infinite() {
            break (p, n);
        }
        if s.exhausted() {
            break (Params::VANILLA, "vanilla");
        }
    };
    let iters = 1 + s.below(30) as u64;
    let prof = gen_profile(&mut s, &built.info);
    // discount factors like t^-1000 push regrets to the bottom of the range of a double, where
    // a power of two is no longer an exact factor
    let tame = |e: f64| e.is_infinite() || e.abs() <= 5.0;
    if !(tame(params.a) && tame(params.b) && params.g <= 8.0) {
        xf.exact = false;
    }
    let mut fresh = 0;
    let other = transform(&mut s, &mut xf, &built.tree, &mut fresh);
    Case {
        built,
        xf,
        other,
        prof,
        params,
        params_name,
        iters,
    }
}

fn map_profile(x: &Xf, prof: &Profile) -> Profile {
    let mut res: Profile = Default::default();
    for p in 0..2 {
        let q = if x.swap { 1 - p } else { p };
        for (name, v) in prof[p].iter() {
            res[q].insert(ren_info(x, name), v.clone());
        }
    }
    res
}

pub fn check(bytes: &[u8], _ctx: &Ctx) -> Verdict {
    let case = decode(bytes);
    let x = &case.xf;
    let game = match build_valid("C12", &case.built.tree) {
        Ok(g) => g,
        Err(v) => return v,
    };
    let other_built = Built {
        tree: case.other.clone(),
        family: case.built.family,
        info: Info::of(&case.other),
    };
    let game2 = match build_valid("C12", &case.other) {
        Ok(g) => g,
        Err(v) => return v,
    };
    let info = &case.built.info;
    let info2 = &other_built.info;
    let scale1 = oracle::scale_of(&case.built.tree);
    let scale2 = oracle::scale_of(&case.other);
    // (i) evaluation of one profile in both presentations
    let s1 = match glue::inject(&game, info, &case.prof) {
        Ok(s) => s,
        Err(e) => return Verdict::fail("harness/valid-profile-rejected", format!("{:?}", e)),
    };
    let prof2 = map_profile(x, &case.prof);
    let s2 = match glue::inject(&game2, info2, &prof2) {
        Ok(s) => s,
        Err(e) => return Verdict::fail("C12/mapped-profile-rejected", format!("the same profile on the transformed game is rejected: {:?} ({:?})", e, x)),
    };
    let (i1, i2) = (s1.get_info(), s2.get_info());
    let tol = 1e-9 * scale2.max(scale1 * x.scale);
    let want_u = {
        let v = x.scale * i1.player_utility(pnum(0)) + x.shift;
        if x.swap {
            -v
        } else {
            v
        }
    };
    if !((i2.player_utility(pnum(0)) - want_u).abs() <= tol) {
        return Verdict::fail(
            "C12/evaluation-utility",
            format!("utility {} on the original, {} on the transformed presentation, expected {} ({:?})", i1.player_utility(pnum(0)), i2.player_utility(pnum(0)), want_u, x),
        );
    }
    for p in 0..2 {
        let q = if x.swap { 1 - p } else { p };
        let want = x.scale * i1.player_regret(pnum(p));
        let got = i2.player_regret(pnum(q));
        if !((got - want).abs() <= tol) {
            return Verdict::fail(
                "C12/evaluation-regret",
                format!("regret of player {} is {} on the original; the corresponding regret on the transformed presentation is {} (expected {}) ({:?})", p + 1, i1.player_regret(pnum(p)), got, want, x),
            );
        }
    }
    // (ii) the deterministic solver
    let mut labels = vec![case.params_name];
    let prep = match prepare("C12", &case.built, &game) {
        Ok(p) => p,
        Err(v) => return v,
    };
    let mut t = case.iters;
    if !x.exact {
        let g1 = reference_guard(&prep, Method::Full, case.params, case.iters, &Decision::First, 0, false, TieRule::LastMaxFirstMin);
        let prep2 = match prepare("C12", &other_built, &game2) {
            Ok(p) => p,
            Err(v) => return v,
        };
        let g2 = reference_guard(&prep2, Method::Full, case.params, case.iters, &Decision::First, 0, false, TieRule::LastMaxFirstMin);
        match (g1, g2) {
            (Ok(a), Ok(b)) => t = a.t_eff.min(b.t_eff),
            (Err(why), _) | (_, Err(why)) => return Verdict::Discard(why),
        }
        if t == 0 {
            return Verdict::Discard("fragile-from-the-first-iteration");
        }
    }
    let params = Some(glue::lib_params(&case.params));
    let r1 = match glue::unpack(info, game.solve(SolveMethod::Full, t, 0.0, 1, params)) {
        Ok(r) => r,
        Err(m) => return Verdict::fail("C12/invalid-result", m),
    };
    let r2 = match glue::unpack(info2, game2.solve(SolveMethod::Full, t, 0.0, 1, params)) {
        Ok(r) => r,
        Err(m) => return Verdict::fail("C12/invalid-result", m),
    };
    let want = map_profile(x, &r1.prof);
    let (d, at) = max_diff(&want, &r2.prof);
    let stol = if x.exact { 1e-12 } else { 1e-6 };
    if d > stol {
        return Verdict::fail(
            "C12/solver-strategies-differ",
            format!("after {} iterations with {:?}: strategies of the two presentations differ by {} at {} (original first; {:?})", t, case.params, d, at, x),
        );
    }
    for p in 0..2 {
        let q = if x.swap { 1 - p } else { p };
        let want = x.scale * r1.bounds[p];
        let btol = if x.exact { 1e-12 } else { 1e-6 } * want.abs().max(scale1 * x.scale);
        if !((r2.bounds[q] - want).abs() <= btol) {
            return Verdict::fail(
                "C12/solver-bounds-differ",
                format!("bound of player {} is {} on the original; on the transformed presentation {} (expected {}) ({:?})", p + 1, r1.bounds[p], r2.bounds[q], want, x),
            );
        }
    }
    if x.exact {
        labels.push("exact-transformation");
    }
    if x.swap {
        labels.push("player-swap");
    }
    if x.inserted > 0 {
        labels.push("inserted-degenerate-nodes");
    }
    if x.removed > 0 {
        labels.push("removed-degenerate-nodes");
    }
    if x.rename {
        labels.push("renamed");
    }
    if x.shift != 0.0 {
        labels.push("payoff-shift");
    }
    if x.scale != 1.0 {
        labels.push("payoff-scale");
    }
    let touched = x.inserted + x.removed > 0 || ((x.rename || x.swap) && info.has_multinode_infoset());
    let not_uniform = max_diff(&r1.prof, &uniform_profile(info)).0 > 1e-3;
    Verdict::Pass {
        nontrivial: if touched && not_uniform {
            Some(hash_bytes(format!("{}|{}|{:?}|{}", case.built.tree.brief(), case.other.brief(), case.params, t).as_bytes()))
        } else {
            None
        },
        labels,
    }
}

pub fn describe(bytes: &[u8]) -> Value {
    let c = decode(bytes);
    json!({"original": c.built.tree.brief(), "transformed": c.other.brief(), "transformation": format!("{:?}", c.xf), "params": format!("{:?}", c.params), "iterations": c.iters})
}

pub fn prop() -> Prop {
    Prop {
        id: "C12",
        check,
        describe,
        rule: "a generated game and a transformed presentation of it, the transformation being a stream-chosen combination of: bijective renaming of infosets/actions/chance infosets, payoff scaling (powers of two or arbitrary), payoff shift, player swap with negated payoffs, per-node chance rescaling (common powers of two inside shared infosets), insertion and removal of single-outcome chance and single-action decision nodes; oracle (metamorphic): (i) a generated profile evaluates to the same utility and regrets up to the stated scaling/shift/negation/swap (1e-9 relative); (ii) Full solve on one thread (presets and tuples with no_positive in {0, +-inf}, T in 1..30) returns the mapped strategies and scaled/swapped bounds: within 1e-12 for transformations that change no rounding, within 1e-6 under the conditioning guard otherwise. Non-trivial = the transformation inserted/removed a node or renamed/swapped a game with a multi-node infoset, and the solution is not uniform; distinct by (both trees, parameters, T).",
        max_len: 800,
        cases_quick: 600_000,
        cases_thorough: 8_000_000,
        assumptions: &["a finite non-zero soft-max weight is scale dependent by definition and is excluded from the solver relation"],
        post: None,
        watchdog_s: 60,
        hang_is_violation: false,
        shrink_iters: 2000,
    }
}
