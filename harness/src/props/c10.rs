//! C10 — sampling follows the declared distributions and is shared within a chance infoset
use super::common::*;
use super::solvecmp::*;
use crate::gen::GenCfg;
use crate::glue::{self, Mode, Recorder, ReplayDecider};
use crate::refcfr::{self, Kind, Method, Params, RunCfg, TieRule};
use crate::runner::{Ctx, Failure, Prop, Stats, Verdict};
use crate::stream::{hash_bytes, mix2, Stream};
use crate::tree::T;
use rand::{Rng, RngCore};
use serde_json::{json, Value};
use std::collections::BTreeMap;

/// a generator whose next_u64 is constant, so that gen::<f64>() is a chosen variate
struct Mock(u64);

impl RngCore for Mock {
    fn next_u32(&mut self) -> u32 {
        (self.0 >> 32) as u32
    }
    fn next_u64(&mut self) -> u64 {
        self.0
    }
    fn fill_bytes(&mut self, dest: &mut [u8]) {
        for (i, b) in dest.iter_mut().enumerate() {
            *b = self.0.to_le_bytes()[i % 8];
        }
    }
    fn try_fill_bytes(&mut self, dest: &mut [u8]) -> Result<(), rand::Error> {
        self.fill_bytes(dest);
        Ok(())
    }
}

fn sampler_case(s: &mut Stream) -> Verdict {
    // mostly short vectors; one in four has 9..40 entries (block sizes of vectorised scans)
    let n = if s.chance(64) { 9 + s.below(32) } else { 1 + s.below(8) };
    let style = s.below(4);
    let mut w: Vec<f64> = (0..n)
        .map(|_| match style {
            0 => 1.0,
            1 => {
                if s.chance(80) {
                    0.0
                } else {
                    0.05 + s.unit()
                }
            }
            _ => 0.01 + s.unit(),
        })
        .collect();
    if w.iter().all(|x| *x == 0.0) {
        w[0] = 1.0;
    }
    let tot: f64 = w.iter().sum();
    // sums slightly off one are what regret matching produces
    let off = [1.0, 1.0 + 1e-15, 1.0 - 1e-15, 1.0 + 3e-16][s.below(4)];
    w.iter_mut().for_each(|x| *x = *x / tot * off);
    let mut cum = Vec::new();
    let mut acc = 0.0;
    for x in w.iter() {
        acc += x;
        cum.push(acc);
    }
    // the variate: random, or next to a cumulative boundary
    let target = match s.below(3) {
        0 => s.unit() + s.unit() / 65536.0,
        _ => {
            let k = s.below(n);
            let delta = [0.0, 1e-9, -1e-9, 1e-6, -1e-6, 3e-16, -3e-16][s.below(7)];
            (cum[k] + delta).clamp(0.0, 1.0 - 1e-16)
        }
    };
    let v = ((target * (1u64 << 53) as f64) as u64).min((1u64 << 53) - 1) << 11;
    let u: f64 = Mock(v).gen();
    let got = cfr::verif::multinomial_sample(&w, &mut Mock(v));
    if got >= n {
        return Verdict::fail("C10/sampler-index-out-of-range", format!("weights {:?} variate {} -> {}", w, u, got));
    }
    // the interval of index k is [c_{k-1}, c_k]; the last index absorbs what is left up to one
    let lo = if got == 0 { 0.0 } else { cum[got - 1] };
    let hi = if got == n - 1 { f64::INFINITY } else { cum[got] };
    let tol = 1e-12;
    if !(u >= lo - tol && u <= hi + tol) {
        return Verdict::fail(
            "C10/sampler-wrong-interval",
            format!("weights {:?} (cumulative {:?}), variate {}: sampler returned index {} whose interval is [{}, {}]", w, cum, u, got, lo, hi),
        );
    }
    if w[got] == 0.0 && got != n - 1 && (u - lo).abs() > tol {
        return Verdict::fail("C10/sampler-zero-weight", format!("weights {:?} variate {} -> zero-weight index {}", w, u, got));
    }
    Verdict::Pass {
        nontrivial: if n >= 3 { Some(hash_bytes(format!("{:?}|{}", w, v).as_bytes())) } else { None },
        labels: vec!["sampler-exactness"],
    }
}

pub struct LogCase {
    pub built: Built,
    pub method: Method,
    pub params: Params,
    pub params_name: &'static str,
    pub iters: u64,
    pub threads: usize,
    pub seed: u64,
}

fn decode_log(s: &mut Stream, gs: &mut Stream) -> LogCase {
    let mut cfg = if s.chance(64) { GenCfg::medium() } else { GenCfg::small() };
    cfg.generic = !s.chance(48);
    cfg.max_nodes = cfg.max_nodes.min(250);
    let built = gen_built(gs, &cfg);
    let method = [Method::Sampled, Method::External, Method::External, Method::Full][s.below(4)];
    let (params, params_name) = pick_moderate_params(s);
    let iters = 1 + s.below(12) as u64;
    let threads = if s.bool() { 1 } else { 2 + s.below(7) };
    let seed = s.u32() as u64;
    LogCase {
        built,
        method,
        params,
        params_name,
        iters,
        threads,
        seed,
    }
}

fn log_case(case: &LogCase) -> Verdict {
    let game = match build_valid("C10", &case.built.tree) {
        Ok(g) => g,
        Err(v) => return v,
    };
    let prep = match prepare("C10", &case.built, &game) {
        Ok(p) => p,
        Err(v) => return v,
    };
    let info = &case.built.info;
    let mut labels = vec![method_name(case.method), case.params_name];
    if case.threads > 1 {
        labels.push("multi-thread");
    }
    let run_lib = |t: u64| -> Result<(glue::Solved, Vec<glue::Draw>), Verdict> {
        let rec = Recorder::new(Mode::Seeded(case.seed));
        let res = glue::solve_hooked(&game, &rec, case.method, t, 0.0, case.threads, Some(glue::lib_params(&case.params)));
        let solved = glue::unpack(info, res).map_err(|m| Verdict::fail("C10/invalid-result", m))?;
        Ok((solved, rec.draws()))
    };
    let run_ref = |t: u64, draws: &[glue::Draw], perturb: Option<u64>| {
        let mut dec = ReplayDecider::new(draws, &prep.maps);
        let mut none = refcfr::NoDraws;
        refcfr::run(
            &prep.rg,
            RunCfg {
                method: case.method,
                params: case.params,
                iters: t,
                perturb,
                decider: if case.method == Method::Full { &mut none } else { &mut dec },
                tie: TieRule::LastMaxFirstMin,
            },
        )
    };
    let (_, draws_full) = match run_lib(case.iters) {
        Ok(x) => x,
        Err(v) => return v,
    };
    if case.method == Method::Full {
        if !draws_full.is_empty() {
            return Verdict::fail("C10/unsampled-method-draws", format!("the unsampled method made {} draws", draws_full.len()));
        }
        return Verdict::Pass { nontrivial: None, labels };
    }
    if case.method == Method::Sampled && draws_full.iter().any(|d| d.kind == Kind::Player) {
        return Verdict::fail("C10/chance-sampled-samples-players", "the chance-sampled method drew a player action");
    }
    // at most one draw per infoset and pass
    {
        let mut seen = std::collections::BTreeSet::new();
        for d in draws_full.iter() {
            if !seen.insert((d.kind, d.slot, d.pass)) {
                return Verdict::fail(
                    "C10/two-draws-in-one-pass",
                    format!("{:?} infoset {} drew twice in pass {}", d.kind, d.slot, d.pass),
                );
            }
        }
    }
    // chance draws are presented the declared, normalised weights, whatever the trajectory
    for d in draws_full.iter().filter(|d| d.kind == Kind::Chance) {
        let ref_id = prep.maps.chance_lib_of_ref.iter().position(|l| *l == d.slot);
        let want = ref_id.map(|i| &prep.rg.chance_probs[i]);
        let ok = want
            .map(|w| w.len() == d.weights.len() && w.iter().zip(d.weights.iter()).all(|(a, b)| (a - b).abs() <= 1e-12))
            .unwrap_or(false);
        if !ok {
            return Verdict::fail(
                "C10/chance-weights",
                format!("chance infoset {} was sampled from {:?}, declared (normalised) {:?}", d.slot, d.weights, want),
            );
        }
        if d.used >= d.weights.len() {
            return Verdict::fail("C10/chance-index", format!("chance draw {} of {}", d.used, d.weights.len()));
        }
    }
    // trajectory dependent part, under the conditioning guard
    let first = run_ref(case.iters, &draws_full, None);
    let mut t = case.iters;
    if let Some(f) = first.fragile_at {
        t = t.min(f);
    }
    if let Some((k, p, i, pass)) = first.missing_draw {
        let t_missing = if case.method == Method::External { (pass + 1) / 2 } else { pass };
        if t_missing <= t {
            return Verdict::fail(
                "C10/missing-draw",
                format!("the traversal reaches {:?} infoset {} of player {} in pass {} but the library made no draw there", k, i, p + 1, pass),
            );
        }
    }
    if t == 0 {
        return Verdict::Discard("fragile-from-the-first-iteration");
    }
    let (lib, draws) = match run_lib(t) {
        Ok(x) => x,
        Err(v) => return v,
    };
    let reference = run_ref(t, &draws, None);
    if let Some((k, p, i, pass)) = reference.missing_draw {
        return Verdict::fail(
            "C10/missing-draw",
            format!("the traversal reaches {:?} infoset {} of player {} in pass {} but the library made no draw there", k, i, p + 1, pass),
        );
    }
    if reference.avg_underflow {
        return Verdict::Discard("average-weights-underflow");
    }
    let shaken = run_ref(t, &draws, Some(case.seed ^ 77));
    let want = ref_profile(&prep.rg, &reference.avg);
    if max_diff(&want, &ref_profile(&prep.rg, &shaken.avg)).0 > 1e-7 {
        return Verdict::Discard("ill-conditioned");
    }
    // the reference's draws and the library's log must be the same set, with the same weights
    let mut expect: BTreeMap<(Kind, usize, u64), &refcfr::RefDraw> = BTreeMap::new();
    for d in reference.draws.iter() {
        expect.insert((d.kind, prep.maps.slot(d.kind, d.player, d.info), d.pass), d);
    }
    for d in draws.iter() {
        match expect.get(&(d.kind, d.slot, d.pass)) {
            None => {
                return Verdict::fail(
                    "C10/extra-draw",
                    format!("the library drew at {:?} infoset {} in pass {} which the sampled traversal does not reach (or which is not to be sampled)", d.kind, d.slot, d.pass),
                )
            }
            Some(r) => {
                if r.weights.len() != d.weights.len() || r.weights.iter().zip(d.weights.iter()).any(|(a, b)| (a - b).abs() > 1e-6) {
                    return Verdict::fail(
                        "C10/player-weights",
                        format!(
                            "{:?} infoset {} pass {}: sampled from {:?} but the current strategy of the non-updating player is {:?}",
                            d.kind, d.slot, d.pass, d.weights, r.weights
                        ),
                    );
                }
            }
        }
    }
    if expect.len() != draws.len() {
        return Verdict::fail("C10/missing-draw", format!("reference expects {} draws, library made {}", expect.len(), draws.len()));
    }
    let (d, at) = max_diff(&want, &lib.prof);
    if d > 1e-6 {
        return Verdict::fail(
            "C10/outcome-not-followed",
            format!("strategies differ from the reference replaying the recorded draws by {} at {} (so some node did not follow its infoset's draw)", d, at),
        );
    }
    if reference.shared_chance_reached {
        labels.push("shared-chance-infoset-reached-twice");
    }
    Verdict::Pass {
        nontrivial: if reference.shared_chance_reached {
            Some(hash_bytes(format!("{}|{:?}|{:?}|{}|{}|{}", case.built.tree.brief(), case.method, case.params, t, case.threads, case.seed).as_bytes()))
        } else {
            None
        },
        labels,
    }
}

pub fn check(bytes: &[u8], _ctx: &Ctx) -> Verdict {
    let (mut s, mut gs) = crate::stream::split(bytes, 48);
    if s.below(3) == 0 {
        sampler_case(&mut s)
    } else {
        let case = decode_log(&mut s, &mut gs);
        log_case(&case)
    }
}

pub fn describe(bytes: &[u8]) -> Value {
    let (mut s, mut gs) = crate::stream::split(bytes, 48);
    if s.below(3) == 0 {
        json!({"kind": "categorical sampler: weights and variate decoded from the stream"})
    } else {
        let c = decode_log(&mut s, &mut gs);
        json!({"kind": "draw log conformance", "game": if c.built.info.num_nodes <= 60 { c.built.tree.brief() } else { format!("({} nodes)", c.built.info.num_nodes) },
               "method": method_name(c.method), "params": format!("{:?}", c.params), "iterations": c.iters, "threads": c.threads, "rng_seed": c.seed})
    }
}

const CHI2_CRIT_1E10: [f64; 7] = [41.82, 46.05, 49.61, 52.85, 55.88, 58.76, 61.53];

fn distribution_checks(ctx: &Ctx, stats: &mut Stats) -> Vec<Failure> {
    let mut failures = Vec::new();
    let n_iter: u64 = if ctx.tier == crate::runner::Tier::Quick { 20_000 } else { 200_000 };
    let vectors: Vec<Vec<f64>> = vec![
        vec![1.0, 1.0],
        vec![1.0, 2.0, 3.0, 4.0],
        vec![0.7, 0.2, 0.1],
        vec![1e-3, 1.0],
        vec![5.0, 1.0, 1.0, 1.0, 1.0, 1.0],
        // skewed vectors one of whose entries is exactly the uniform probability 1/n
        vec![1.0, 2.0, 3.0],
        vec![1.0, 4.0, 3.0, 4.0],
        vec![3.0, 1.0, 2.0, 2.0, 2.0],
    ];
    // generated small-integer weight vectors (length 2..7, weights 1..6), a function of the seed
    let mut vectors = vectors;
    let extra = if ctx.tier == crate::runner::Tier::Quick { 24 } else { 200 };
    for k in 0..extra {
        let h = mix2(ctx.seed, 7_000 + k);
        let len = 2 + (h % 6) as usize;
        vectors.push((0..len).map(|i| 1.0 + ((h >> (8 + 4 * i)) % 6) as f64).collect());
    }
    let mut summary = Vec::new();
    for (vi, w) in vectors.iter().enumerate() {
        for method in [Method::Sampled, Method::External] {
            let tree = T::Chance(None, w.iter().enumerate().map(|(i, x)| (*x, T::Term(i as f64))).collect());
            let game = glue::build(&tree).unwrap();
            let rec = Recorder::new(Mode::Seeded(mix2(ctx.seed, vi as u64)));
            let _ = glue::solve_hooked(&game, &rec, method, n_iter, 0.0, 1, None);
            let draws = rec.draws();
            let tot: f64 = w.iter().sum();
            let mut counts = vec![0u64; w.len()];
            for d in draws.iter() {
                counts[d.used] += 1;
            }
            let n = draws.len() as f64;
            let chi2: f64 = counts.iter().zip(w.iter()).map(|(o, x)| (*o as f64 - n * x / tot).powi(2) / (n * x / tot)).sum();
            let crit = CHI2_CRIT_1E10[w.len() - 2];
            summary.push(json!({"weights": w, "method": method_name(method), "draws": draws.len(), "counts": counts, "chi2": chi2, "critical_p1e-10": crit}));
            let expected_draws = if method == Method::External { 2 * n_iter } else { n_iter };
            if draws.len() as u64 != expected_draws {
                failures.push(Failure {
                    sig: "C10/draw-count".into(),
                    msg: format!("{} passes over a single chance node made {} draws", expected_draws, draws.len()),
                    bytes: vec![],
                    extra: json!({"weights": w}),
                });
            } else if chi2 > crit {
                failures.push(Failure {
                    sig: "C10/chance-distribution".into(),
                    msg: format!("chi-square {} > {} for weights {:?}: counts {:?} over {} draws ({})", chi2, crit, w, counts, draws.len(), method_name(method)),
                    bytes: vec![],
                    extra: json!({"weights": w}),
                });
            }
        }
    }
    // several chance infosets in one game, the later ones with the same weights in another order:
    // every infoset has to draw from its own declared weights
    let pairs = if ctx.tier == crate::runner::Tier::Quick { 8 } else { 60 };
    for k in 0..pairs {
        let h = mix2(ctx.seed, 9_000 + k);
        let len = 2 + (h % 4) as usize;
        let first: Vec<f64> = if k == 0 { vec![9.0, 1.0] } else { (0..len).map(|i| 1.0 + ((h >> (8 + 4 * i)) % 9) as f64).collect() };
        let mut second = first.clone();
        second.rotate_left(1 + (h >> 40) as usize % (first.len() - 1).max(1));
        if k % 3 == 2 {
            second.reverse();
        }
        let inner = |tag: &str| T::Chance(Some(tag.to_string()), second.iter().enumerate().map(|(i, x)| (*x, T::Term(i as f64))).collect());
        let tree = T::Chance(Some("first".into()), first.iter().map(|x| (*x, inner("second"))).collect());
        let game = glue::build(&tree).unwrap();
        for method in [Method::Sampled, Method::External] {
            let rec = Recorder::new(Mode::Seeded(mix2(ctx.seed, 9_500 + k)));
            let _ = glue::solve_hooked(&game, &rec, method, n_iter / 2, 0.0, 1, None);
            let draws = rec.draws();
            for slot in [0usize, 1usize] {
                // which infoset a slot is follows the library's numbering: take the declared
                // (normalised) weights the hook reports for that slot
                let w: Vec<f64> = match draws.iter().find(|d| d.kind == Kind::Chance && d.slot == slot) {
                    Some(d) => d.weights.clone(),
                    None => continue,
                };
                let w = &w;
                let tot: f64 = w.iter().sum();
                let mut counts = vec![0u64; w.len()];
                let mut n = 0.0;
                for d in draws.iter().filter(|d| d.kind == Kind::Chance && d.slot == slot) {
                    counts[d.used] += 1;
                    n += 1.0;
                }
                if n == 0.0 {
                    continue;
                }
                let chi2: f64 = counts.iter().zip(w.iter()).map(|(o, x)| (*o as f64 - n * x / tot).powi(2) / (n * x / tot)).sum();
                let crit = CHI2_CRIT_1E10[w.len() - 2];
                summary.push(json!({"two_chance_infosets": [first, second], "infoset": slot, "method": method_name(method), "counts": counts, "chi2": chi2, "critical_p1e-10": crit}));
                if chi2 > crit {
                    failures.push(Failure {
                        sig: "C10/chance-distribution".into(),
                        msg: format!(
                            "game with two chance infosets (weights {:?} and {:?}): infoset {} drew {:?} over {} draws, chi-square {} > {} ({})",
                            first, second, slot, counts, n, chi2, crit, method_name(method)
                        ),
                        bytes: vec![],
                        extra: json!({"weights": w}),
                    });
                }
            }
        }
    }
    // one chance infoset with very many outcomes, met twice on a path: both nodes follow the one
    // draw (counts around the limits of 8- and 16-bit indices)
    for width in [255usize, 256, 257, 65_535, 65_536, 65_540] {
        let hot = width - 3;
        let outs = |leaf: &dyn Fn(usize) -> T| -> Vec<(f64, T)> { (0..width).map(|i| (if i == hot { 1e6 } else { 1.0 }, leaf(i))).collect() };
        let inner = T::Chance(Some("deal".into()), outs(&|i| T::Term(if i == hot { 1.0 } else { -1.0 })));
        let decide = T::Player(0, "p".into(), vec![("play".into(), inner), ("skip".into(), T::Term(0.0))]);
        let tree = T::Chance(Some("deal".into()), outs(&|i| if i == hot { decide.clone() } else { T::Term(0.0) }));
        let info = crate::tree::Info::of(&tree);
        let case = LogCase {
            built: Built { tree, family: "wide-shared-chance", info },
            method: if width % 2 == 0 { Method::Sampled } else { Method::External },
            params: crate::refcfr::Params::VANILLA,
            params_name: "vanilla",
            iters: 6,
            threads: if width % 3 == 0 { 2 } else { 1 },
            seed: mix2(ctx.seed, width as u64),
        };
        match log_case(&case) {
            Verdict::Fail { sig, msg } => failures.push(Failure { sig, msg: format!("chance infoset with {} outcomes met twice on a path: {}", width, msg), bytes: vec![], extra: json!({"width": width}) }),
            _ => summary.push(json!({"wide_shared_chance_infoset": width, "outcome": "draw log conforms"})),
        }
    }
    // player draws of external sampling: martingale statistic on a 3x3 matrix game
    for gi in 0..3u64 {
        let mut st = Stream::new(&[]);
        let _ = &mut st;
        let pay = |i: usize, j: usize| ((mix2(mix2(ctx.seed, gi), (i * 3 + j) as u64) >> 11) as f64 / (1u64 << 53) as f64) * 2.0 - 1.0;
        let tree = T::Player(
            0,
            "r".into(),
            (0..3)
                .map(|i| {
                    (
                        format!("r{}", i),
                        T::Player(1, "c".into(), (0..3).map(|j| (format!("c{}", j), T::Term(pay(i, j)))).collect()),
                    )
                })
                .collect(),
        );
        let game = glue::build(&tree).unwrap();
        let rec = Recorder::new(Mode::Seeded(mix2(ctx.seed, 1000 + gi)));
        let _ = glue::solve_hooked(&game, &rec, Method::External, n_iter / 2, 0.0, 1, Some(cfr::RegretParams::vanilla()));
        let draws = rec.draws();
        for j in [0usize, 2usize] {
            let mut num = 0.0;
            let mut var = 0.0;
            for d in draws.iter().filter(|d| d.kind == Kind::Player) {
                let wj = d.weights[j];
                num += (if d.used == j { 1.0 } else { 0.0 }) - wj;
                var += wj * (1.0 - wj);
            }
            let z = if var > 0.0 { num / var.sqrt() } else { 0.0 };
            summary.push(json!({"matrix_game": gi, "index": j, "player_draws": draws.len(), "z": z}));
            if z.abs() > 6.5 {
                failures.push(Failure {
                    sig: "C10/player-distribution".into(),
                    msg: format!("martingale statistic {} for index {} over {} player draws", z, j, draws.len()),
                    bytes: vec![],
                    extra: json!({"matrix_game": gi}),
                });
            }
        }
    }
    stats.evaluations += summary.len() as u64;
    stats.extra.insert("distribution_tests".into(), json!(summary));
    failures
}

pub fn prop() -> Prop {
    Prop {
        id: "C10",
        check,
        describe,
        rule: "three parts. (a) categorical sampler: generated weight vectors (length 1..8, one in four 9..40; zeros; sums off one by 1e-15) x variates (random, or +-{0,3e-16,1e-9,1e-6} around a cumulative boundary) fed through a mock generator into the production sampler; the index must be the one whose cumulative interval contains the variate (either neighbour within 1e-12). (b) draw-log conformance: generated games x {Sampled, External, Full} x parameters x T in 1..12 x {1, 2..8 threads} with the production samplers running on per-site seeded generators; the reference model replays the recorded draws and must expect exactly the recorded set of (kind, infoset, pass) with the recorded weights (chance: declared normalised weights within 1e-12; player: the non-updating player's current strategy within 1e-6) and reach the same strategies. (c) fixed-seed distribution tests: chi-square over >= 20000 chance draws on eight fixed and 24 (thorough 200) seed-generated small-integer weight vectors (several with an entry exactly 1/n), martingale statistic over external player draws, the same test per infoset on games with two chance infosets whose weights are rotations or reversals of each other, and draw-log conformance on one chance infoset with 255..65540 outcomes met twice on a path; alarm beyond p < 1e-10. Non-trivial = (a) vectors with >= 3 entries, (b) a chance infoset met at two or more nodes in one pass; distinct by case content.",
        max_len: 900,
        cases_quick: 50_000,
        cases_thorough: 800_000,
        assumptions: &["distribution tests are deterministic for a fixed seed; across seeds their false-alarm rate is below 1e-9 per run"],
        post: Some(distribution_checks),
        watchdog_s: 120,
        hang_is_violation: false,
        shrink_iters: 1000,
    }
}
