//! C04 — the chance-sampled and external-sampled solvers converge on every game
use super::c03::{preset, PRESETS};
use super::common::*;
use super::solvecmp::method_name;
use crate::gen::GenCfg;
use crate::glue::{self, Mode, Recorder};
use crate::oracle;
use crate::refcfr::Method;
use crate::runner::{Ctx, Failure, Prop, Stats, Tier, Verdict};
use crate::stream::{hash_bytes, mix2, Stream};
use crate::tree::uniform_profile;
use serde_json::{json, Value};
use std::sync::Mutex;

pub struct Case {
    pub built: Built,
    pub method: Method,
    pub preset: usize,
    pub iters: u64,
    pub threads: usize,
    pub seed: u64,
}

pub fn decode(bytes: &[u8]) -> Case {
    let (mut s, mut gs) = crate::stream::split(bytes, 16);
    let mut cfg = if s.chance(40) { GenCfg::medium() } else { GenCfg::small() };
    if s.bool() {
        cfg.max_nodes = 10;
        cfg.max_depth = 3;
        cfg.decorate = false;
    }
    cfg.max_nodes = cfg.max_nodes.min(150);
    let built = gen_built(&mut gs, &cfg);
    let method = if s.bool() { Method::External } else { Method::Sampled };
    let preset = s.below(5);
    let mut iters = [100u64, 300, 1000, 3000][s.below(4)];
    // long runs on tiny games (the average must keep converging past every power of two)
    if built.info.num_nodes <= 12 && s.chance(24) {
        iters = [40_000u64, 70_000, 140_000][s.below(3)];
    }
    let threads = if s.weighted(&[3, 1]) == 0 { 1 } else { 2 + s.below(7) };
    let seed = s.u32() as u64;
    Case {
        built,
        method,
        preset,
        iters,
        threads,
        seed,
    }
}

fn true_regret(case_tree: &crate::tree::T, info: &crate::tree::Info, game: &glue::G, method: Method, preset_i: usize, iters: u64, threads: usize, seed: u64) -> Result<f64, Verdict> {
    let rec = Recorder::new(Mode::Seeded(seed));
    let res = glue::solve_hooked(game, &rec, method, iters, 0.0, threads, Some(preset(preset_i)));
    let sol = glue::unpack(info, res).map_err(|m| Verdict::fail("C04/invalid-result", m))?;
    let eval = oracle::evaluate(case_tree, info, &sol.prof, 50_000).map_err(|m| Verdict::fail("harness/oracles-disagree", m))?;
    Ok(f64::max(eval.regret[0], eval.regret[1]))
}

pub fn check(bytes: &[u8], _ctx: &Ctx) -> Verdict {
    let case = decode(bytes);
    let game = match build_valid("C04", &case.built.tree) {
        Ok(g) => g,
        Err(v) => return v,
    };
    let info = &case.built.info;
    let d = oracle::payoff_range(&case.built.tree);
    let n = info.num_multi() as f64;
    let a = info.infosets.iter().flat_map(|m| m.values().map(|v| v.len())).filter(|k| *k >= 2).max().unwrap_or(0) as f64;
    let t = case.iters as f64;
    let tol = 1e-9 * oracle::scale_of(&case.built.tree);
    let env = d * n * a.sqrt() / t.sqrt();
    let first = match true_regret(&case.built.tree, info, &game, case.method, case.preset, case.iters, case.threads, case.seed) {
        Ok(x) => x,
        Err(v) => return v,
    };
    let mut labels = vec![PRESETS[case.preset], method_name(case.method)];
    if first > env + tol {
        // "with overwhelming probability": majority of 21 sampling seeds
        let mut exceed = 1;
        let mut worst = first;
        for k in 1..=20u64 {
            match true_regret(&case.built.tree, info, &game, case.method, case.preset, case.iters, case.threads, mix2(case.seed, k)) {
                Ok(x) => {
                    if x > env + tol {
                        exceed += 1;
                    }
                    worst = worst.max(x);
                }
                Err(v) => return v,
            }
        }
        if exceed >= 11 {
            // known finding: one cached draw per chance infoset and pass is also followed by a
            // second node of that infoset further down the same path, so the sampled game differs
            // from the evaluated one. Attributed to it only if the structure is present AND the
            // same game with the repeated labels made anonymous passes under the same 21 seeds.
            let mut sig = format!("C04/regret-above-envelope/{}/{}", method_name(case.method), PRESETS[case.preset]);
            if case.built.tree.chance_label_repeats_on_path() {
                let plain = case.built.tree.without_path_repeats();
                if let Ok(game2) = glue::build(&plain) {
                    let info2 = crate::tree::Info::of(&plain);
                    let mut exceed2 = 0;
                    for k in 0..=20u64 {
                        let sd = if k == 0 { case.seed } else { mix2(case.seed, k) };
                        match true_regret(&plain, &info2, &game2, case.method, case.preset, case.iters, case.threads, sd) {
                            Ok(x) if x > env + tol => exceed2 += 1,
                            _ => (),
                        }
                    }
                    if exceed2 < 11 {
                        sig = "C04/regret-above-envelope/chance-infoset-repeats-on-a-path".to_string();
                    }
                }
            }
            return Verdict::fail(
                sig,
                format!(
                    "{} {} T={} threads={} D={} N={} A={}: true regret exceeds D N sqrt(A)/sqrt(T) = {} in {} of 21 seeded runs (worst {})",
                    method_name(case.method), PRESETS[case.preset], case.iters, case.threads, d, n, a, env, exceed, worst
                ),
            );
        }
        labels.push("single-exceedance-tolerated");
    }
    let uni = oracle::evaluate(&case.built.tree, info, &uniform_profile(info), 50_000).map(|e| f64::max(e.regret[0], e.regret[1])).unwrap_or(0.0);
    let nontrivial = uni > env + tol;
    if nontrivial {
        labels.push("uniform-would-fail");
    }
    if case.threads > 1 {
        labels.push("multi-thread");
    }
    if case.built.tree.chance_label_repeats_on_path() {
        labels.push("chance-infoset-repeats-on-a-path");
    }
    Verdict::Pass {
        nontrivial: if nontrivial {
            Some(hash_bytes(format!("{}|{:?}|{}|{}|{}|{}", case.built.tree.brief(), case.method, case.preset, case.iters, case.threads, case.seed).as_bytes()))
        } else {
            None
        },
        labels,
    }
}

pub fn describe(bytes: &[u8]) -> Value {
    let c = decode(bytes);
    json!({"family": c.built.family, "game": if c.built.info.num_nodes <= 60 { c.built.tree.brief() } else { format!("({} nodes)", c.built.info.num_nodes) },
           "method": method_name(c.method), "preset": PRESETS[c.preset], "iterations": c.iters, "threads": c.threads, "rng_seed": c.seed})
}

fn median(v: &mut Vec<f64>) -> f64 {
    v.sort_by(|a, b| a.partial_cmp(b).unwrap());
    if v.is_empty() {
        return 0.0;
    }
    v[v.len() / 2]
}

/// aggregate statement over a fixed collection of generated non-trivial games
fn aggregate(ctx: &Ctx, stats: &mut Stats) -> Vec<Failure> {
    let want = if ctx.tier == Tier::Quick { 120 } else { 1200 };
    // the collection: first `want` generated games with D > 0, N >= 1 and uniform regret > 5 % of D
    let mut games = Vec::new();
    let mut k = 0u64;
    let mut excluded_known = 0u64;
    while games.len() < want && k < 200_000 {
        k += 1;
        let mut state = mix2(ctx.seed, 90_000 + k);
        let bytes: Vec<u8> = (0..300)
            .map(|_| {
                state = crate::stream::mix(state);
                state as u8
            })
            .collect();
        let mut gs = Stream::new(&bytes);
        let mut cfg = GenCfg::small();
        cfg.max_nodes = 60;
        let built = gen_built(&mut gs, &cfg);
        let d = oracle::payoff_range(&built.tree);
        if !(d > 0.0) || built.info.num_multi() == 0 {
            continue;
        }
        if built.tree.chance_label_repeats_on_path() {
            // games hit by the known finding are kept out of the collection (counted)
            excluded_known += 1;
            continue;
        }
        let uni = match oracle::evaluate(&built.tree, &built.info, &uniform_profile(&built.info), 50_000) {
            Ok(e) => f64::max(e.regret[0], e.regret[1]),
            Err(_) => continue,
        };
        if uni > 0.05 * d {
            games.push((built, d));
        }
    }
    let mut failures = Vec::new();
    let mut table = Vec::new();
    let configs: Vec<(Method, usize, usize)> = [Method::Sampled, Method::External]
        .iter()
        .flat_map(|m| (0..5).flat_map(move |p| [1usize, 4].iter().map(move |t| (*m, p, *t)).collect::<Vec<_>>()))
        .collect();
    let out: Mutex<Vec<(usize, f64, f64)>> = Mutex::new(Vec::new());
    let errors: Mutex<Vec<String>> = Mutex::new(Vec::new());
    let next = std::sync::atomic::AtomicUsize::new(0);
    let total = configs.len() * games.len();
    std::thread::scope(|scope| {
        for _ in 0..16 {
            scope.spawn(|| loop {
                let job = next.fetch_add(1, std::sync::atomic::Ordering::SeqCst);
                if job >= total {
                    break;
                }
                let ci = job / games.len();
                let gi = job % games.len();
                let (method, preset_i, threads) = configs[ci];
                let (built, d) = &games[gi];
                let game = glue::build(&built.tree).unwrap();
                let seed = mix2(ctx.seed, job as u64);
                let lo = true_regret(&built.tree, &built.info, &game, method, preset_i, 100, threads, seed);
                let hi = true_regret(&built.tree, &built.info, &game, method, preset_i, 3000, threads, seed);
                match (lo, hi) {
                    (Ok(lo), Ok(hi)) => out.lock().unwrap().push((ci, lo / d, hi / d)),
                    _ => errors.lock().unwrap().push(format!("config {} game {} failed to solve", ci, gi)),
                }
            });
        }
    });
    for e in errors.into_inner().unwrap() {
        failures.push(Failure { sig: "C04/aggregate-solve-failed".into(), msg: e, bytes: vec![], extra: json!({}) });
    }
    let out = out.into_inner().unwrap();
    for (ci, (method, preset_i, threads)) in configs.iter().enumerate() {
        let mut lo: Vec<f64> = out.iter().filter(|o| o.0 == ci).map(|o| o.1).collect();
        let mut hi: Vec<f64> = out.iter().filter(|o| o.0 == ci).map(|o| o.2).collect();
        let mlo = median(&mut lo);
        let mhi = median(&mut hi);
        table.push(json!({"method": method_name(*method), "preset": PRESETS[*preset_i], "threads": threads, "games": lo.len(),
                          "median_regret_over_D_T100": mlo, "median_regret_over_D_T3000": mhi}));
        let name = format!("{}/{}/{}", method_name(*method), PRESETS[*preset_i], if *threads == 1 { "one-thread" } else { "several-threads" });
        if !(mhi < 0.01) {
            failures.push(Failure {
                sig: format!("C04/aggregate-not-below-one-percent/{}", name),
                msg: format!("{}: median regret / payoff range after 3000 iterations is {} over {} games (>= 1 %)", name, mhi, hi.len()),
                bytes: vec![],
                extra: json!({}),
            });
        } else if !(mhi <= 0.5 * mlo || mhi < 1e-5) {
            failures.push(Failure {
                sig: format!("C04/aggregate-not-decreasing/{}", name),
                msg: format!("{}: median regret / payoff range is {} after 100 and {} after 3000 iterations", name, mlo, mhi),
                bytes: vec![],
                extra: json!({}),
            });
        }
    }
    stats.evaluations += (2 * total) as u64;
    stats.extra.insert("aggregate".into(), json!({"games": games.len(), "candidates_screened": k, "excluded_chance_infoset_repeats_on_a_path": excluded_known, "table": table}));
    if let Some((built, d)) = games.first() {
        stats.extra_samples.push(json!({"first_game_of_the_aggregate_collection": built.tree.brief(), "payoff_range": d}));
    }
    failures
}

pub fn prop() -> Prop {
    Prop {
        id: "C04",
        check,
        describe,
        rule: "per case: generated games (half tiny) x {Sampled, External} x five presets x T in {100,300,1000,3000} (on games of <= 12 nodes one case in ten 40000, 70000 or 140000) x {1, 2..8 threads}, production samplers on per-site seeded generators (reproducible); oracle: true regret (independent) <= D N sqrt(A)/sqrt(T); one exceedance is re-run with 20 more sampling seeds and is a violation only if a majority of the 21 runs exceed. Aggregate: over a fixed collection of generated non-trivial games (uniform regret > 5 % of D) per method x preset x {1, 4 threads}: median regret/D at T=3000 < 0.01 and <= half the median at T=100 (unless already < 1e-5). Non-trivial (per case) = the uniform profile violates the envelope at this T; distinct by (tree, method, preset, T, threads, seed).",
        max_len: 500,
        cases_quick: 30_000,
        cases_thorough: 300_000,
        assumptions: &[
            "probabilistic claim decided by a majority-of-21 rule: false-alarm probability < 1e-8 per case even for a per-run exceedance probability of 0.1; a code whose exceedance probability lies between ~0.1 and 0.5 on some game is not flagged",
            "'far below' is read as 'at most half'",
        ],
        post: Some(aggregate),
        watchdog_s: 240,
        hang_is_violation: false,
        shrink_iters: 40,
    }
}
