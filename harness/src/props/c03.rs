//! C03 — the unsampled solve converges at the CFR rate on every game
use super::common::*;
use crate::gen::GenCfg;
use crate::glue;
use crate::oracle;
use crate::runner::{Ctx, Prop, Verdict};
use crate::stream::hash_bytes;
use crate::tree::uniform_profile;
use cfr::{RegretParams, SolveMethod};
use serde_json::{json, Value};

pub struct Case {
    pub built: Built,
    pub preset: usize,
    pub iters: u64,
    pub threads: usize,
}

pub const PRESETS: [&str; 5] = ["vanilla", "lcfr", "cfr_plus", "dcfr", "dcfr_prune"];

pub fn preset(i: usize) -> RegretParams {
    match i {
        0 => RegretParams::vanilla(),
        1 => RegretParams::lcfr(),
        2 => RegretParams::cfr_plus(),
        3 => RegretParams::dcfr(),
        _ => RegretParams::dcfr_prune(),
    }
}

pub fn decode(bytes: &[u8], thorough: bool) -> Case {
    let (mut s, mut gs) = crate::stream::split(bytes, 16);
    let mut cfg = if s.chance(40) { GenCfg::medium() } else { GenCfg::small() };
    // small N and large T is where the envelope bites
    if s.bool() {
        cfg.max_nodes = 8;
        cfg.max_depth = 2;
        cfg.decorate = false;
    }
    let built = gen_built(&mut gs, &cfg);
    let preset = s.below(5);
    // log-uniform budget
    let max_log = if thorough && built.info.num_nodes <= 60 { (30_000f64).ln() } else { (3_000f64).ln() };
    let iters = if s.bool() {
        (s.unit() * max_log).exp().floor().max(1.0) as u64
    } else {
        // the upper third of the range, where the envelope is below the payoff range for small N
        (max_log.exp() * (0.33 + 0.67 * s.unit())) as u64
    };
    let threads = match s.weighted(&[6, 1, 1]) {
        0 => 1,
        1 => 2 + s.below(2),
        _ => 2 + s.below(15),
    };
    // long runs on little games: with three or more infosets the envelope falls below a constant
    // fraction of the payoff range only after tens of thousands of iterations
    let iters = if built.info.num_nodes <= 30 && s.chance(48) {
        let top: f64 = if thorough { 1_000_000.0 } else { 300_000.0 };
        (30_000.0 * (s.unit() * (top / 30_000.0).ln()).exp()) as u64
    } else {
        iters
    };
    Case {
        built,
        preset,
        iters,
        threads,
    }
}

pub fn check(bytes: &[u8], ctx: &Ctx) -> Verdict {
    let case = decode(bytes, ctx.tier == crate::runner::Tier::Thorough);
    let game = match build_valid("C03", &case.built.tree) {
        Ok(g) => g,
        Err(v) => return v,
    };
    let info = &case.built.info;
    let d = oracle::payoff_range(&case.built.tree);
    let n = game.num_infosets();
    if n != info.num_multi() {
        return Verdict::fail("C03/num-infosets", format!("num_infosets() = {} but the tree has {}", n, info.num_multi()));
    }
    let a = info.infosets.iter().flat_map(|m| m.values().map(|v| v.len())).filter(|k| *k >= 2).max().unwrap_or(0) as f64;
    let t = case.iters as f64;
    let tol = 1e-9 * oracle::scale_of(&case.built.tree);
    let res = game.solve(SolveMethod::Full, case.iters, 0.0, case.threads, Some(preset(case.preset)));
    let sol = match glue::unpack(info, res) {
        Ok(s) => s,
        Err(m) => return Verdict::fail("C03/invalid-result", m),
    };
    let mut labels = vec![PRESETS[case.preset], case.built.family];
    if case.preset == 0 {
        let env = 2.0 * d * n as f64 * a.sqrt() / t.sqrt();
        for p in 0..2 {
            if !(sol.bounds[p] <= env + tol) {
                return Verdict::fail(
                    "C03/vanilla-bound-above-cfr-theorem",
                    format!("T={} D={} N={} A={}: bound of player {} is {} > 2 D N sqrt(A)/sqrt(T) = {}", case.iters, d, n, a, p + 1, sol.bounds[p], env),
                );
            }
        }
    }
    let env = 6.0 * d * n as f64 * (a.sqrt() + 1.0 / t.sqrt()) / t.sqrt();
    let eval = match oracle::evaluate(&case.built.tree, info, &sol.prof, 100_000) {
        Ok(e) => e,
        Err(m) => return Verdict::fail("harness/oracles-disagree", m),
    };
    let truth = f64::max(eval.regret[0], eval.regret[1]);
    if !(truth <= env + tol) {
        return Verdict::fail(
            format!("C03/regret-above-envelope/{}", PRESETS[case.preset]),
            format!(
                "{} T={} threads={} D={} N={} A={}: true regret {} > 6 D N (sqrt(A) + 1/sqrt(T))/sqrt(T) = {}",
                PRESETS[case.preset], case.iters, case.threads, d, n, a, truth, env
            ),
        );
    }
    // non-trivial: a solver that does nothing (uniform profile) would fail here
    let uni = oracle::evaluate(&case.built.tree, info, &uniform_profile(info), 100_000).map(|e| f64::max(e.regret[0], e.regret[1])).unwrap_or(0.0);
    let nontrivial = uni > env + tol;
    if nontrivial {
        labels.push("uniform-would-fail");
    }
    if case.threads > 1 {
        labels.push("multi-thread");
    }
    if case.iters >= 300 {
        labels.push("T>=300");
    }
    Verdict::Pass {
        nontrivial: if nontrivial {
            Some(hash_bytes(format!("{}|{}|{}|{}", case.built.tree.brief(), case.preset, case.iters, case.threads).as_bytes()))
        } else {
            None
        },
        labels,
    }
}

pub fn describe(bytes: &[u8]) -> Value {
    let c = decode(bytes, false);
    json!({"family": c.built.family, "game": if c.built.info.num_nodes <= 60 { c.built.tree.brief() } else { format!("({} nodes)", c.built.info.num_nodes) },
           "preset": PRESETS[c.preset], "iterations": c.iters, "threads": c.threads})
}

pub fn prop() -> Prop {
    Prop {
        id: "C03",
        check,
        describe,
        rule: "generated games (all families incl. deep chains, shared wide infosets, rare chance, dominated/duplicated actions; half of them tiny, where the envelope bites) x the five presets x T log-uniform in 1..3000 (thorough: ..30000 on games of <= 60 nodes), and on games of <= 30 nodes one case in five with T in 30000..300000 (thorough ..1000000) x {1 (three cases in four), 2-3, 2..16 threads}; oracle: exactly the envelopes of the statement with D = payoff range, N = num_infosets() (cross-checked), A = max arity: vanilla per-player bound <= 2DN sqrt(A)/sqrt(T); true regret (independent oracle) <= 6DN(sqrt(A)+1/sqrt(T))/sqrt(T). Non-trivial = the uniform profile violates the second envelope at this T (a solver that does nothing would fail); distinct by (tree, preset, T, threads).",
        max_len: 700,
        cases_quick: 40_000,
        cases_thorough: 500_000,
        assumptions: &["tolerance 1e-9 * scale"],
        post: None,
        watchdog_s: 240,
        hang_is_violation: false,
        shrink_iters: 300,
    }
}
