//! C18 — truncation keeps a valid profile and only removes small actions
use super::common::*;
use crate::gen::GenCfg;
use crate::glue;
use crate::runner::{Ctx, Prop, Verdict};
use crate::stream::{hash_bytes, Stream};
use crate::tree::{pnum, Profile};
use serde_json::{json, Value};

fn next_up(x: f64) -> f64 {
    if x == 0.0 {
        return f64::from_bits(1);
    }
    if x > 0.0 {
        f64::from_bits(x.to_bits() + 1)
    } else {
        f64::from_bits(x.to_bits() - 1)
    }
}

fn next_down(x: f64) -> f64 {
    if x == 0.0 {
        return -f64::from_bits(1);
    }
    if x > 0.0 {
        f64::from_bits(x.to_bits() - 1)
    } else {
        f64::from_bits(x.to_bits() + 1)
    }
}

pub fn pick_threshold(s: &mut Stream, prof: &Profile) -> (f64, &'static str) {
    let mut all: Vec<f64> = prof.iter().flat_map(|m| m.values().flat_map(|v| v.iter().copied())).collect();
    all.sort_by(|a, b| a.partial_cmp(b).unwrap());
    all.dedup();
    if all.is_empty() {
        all.push(0.5);
    }
    match s.below(11) {
        0 => (0.0, "zero"),
        1 => (f64::NEG_INFINITY, "neg-inf"),
        2 => (-1.0, "negative"),
        3 => (*s.pick(&all), "at-a-probability"),
        4 => (next_up(*s.pick(&all)), "just-above-a-probability"),
        5 => (next_down(*s.pick(&all)), "just-below-a-probability"),
        6 => {
            let i = s.below(all.len());
            let lo = all[i];
            let hi = all.get(i + 1).copied().unwrap_or(1.0);
            (lo + (hi - lo) * 0.5, "mid-point")
        }
        7 => (1.0, "one"),
        8 => (if s.bool() { 2.0 } else { f64::INFINITY }, "above-one"),
        9 => ([1e-17, 1e-100, 1e-300, 5e-324, 2.2e-16, 1e-12][s.below(6)], "tiny-positive"),
        _ => (s.unit(), "random"),
    }
}

/// one truncation step against the model: `before` is the profile the object held, `named` its
/// named view afterwards. Returns (profile afterwards, lost an action, some infoset had nothing
/// above h, some probability within rounding of h)
fn check_step(info: &crate::tree::Info, before: &Profile, named: &glue::Named, h: f64) -> Result<(Profile, bool, bool, bool), Verdict> {
    let mut lost_action = false;
    let mut emptied = false;
    let mut near_threshold = false;
    let raw = glue::to_profile(info, named).map_err(|m| Verdict::fail("C18/result-view-malformed", m))?;
    for p in 0..2 {
        for (name, v) in before[p].iter() {
            let keep: Vec<bool> = v.iter().map(|x| *x > h).collect();
            let got = &raw[p][name];
            if keep.iter().any(|k| *k) {
                let tot: f64 = v.iter().zip(keep.iter()).filter(|(_, k)| **k).map(|(x, _)| *x).sum();
                for ((x, k), g) in v.iter().zip(keep.iter()).zip(got.iter()) {
                    let want = if *k { *x / tot } else { 0.0 };
                    if !ulp_close(want, *g, 4.0 + v.len() as f64) {
                        return Err(Verdict::fail(
                            "C18/support-or-rescaling",
                            format!(
                                "infoset {:?} of player {}: {:?} truncated at {:e} gives {:?}; expected the actions above the threshold rescaled proportionally",
                                name, p + 1, v, h, got
                            ),
                        ));
                    }
                    if *x > 0.0 && !*k {
                        lost_action = true;
                    }
                    if h.is_finite() && h > 0.0 && ((x - h).abs() <= 1e-9 * h || (want - h).abs() <= 1e-9 * h) {
                        near_threshold = true;
                    }
                }
            } else {
                emptied = true;
            }
        }
    }
    // whatever the threshold, the result is a valid profile
    let after = named_valid(info, named).map_err(|m| {
        Verdict::fail(
            if emptied { "C18/invalid-profile/no-action-above-threshold" } else { "C18/invalid-profile" },
            format!("after truncate({:e}) the profile is not valid: {}", h, m),
        )
    })?;
    Ok((after, lost_action, emptied, near_threshold))
}

pub fn check(bytes: &[u8], _ctx: &Ctx) -> Verdict {
    let (mut s, mut gs) = crate::stream::split(bytes, 128);
    let built = gen_built(&mut gs, &GenCfg::small());
    let game = match build_valid("C18", &built.tree) {
        Ok(g) => g,
        Err(v) => return v,
    };
    let info = &built.info;
    let (strats, _, source) = match some_strategies(&mut s, &game, info) {
        Ok(x) => x,
        Err(v) => return v,
    };
    let before = match named_valid(info, &glue::read_named(&strats)) {
        Ok(p) => p,
        Err(m) => return Verdict::fail("harness/invalid-start-profile", m),
    };
    let (h, hkind) = pick_threshold(&mut s, &before);
    let mut labels = vec![source, hkind];
    let mut once = strats.clone();
    once.truncate(h);
    let named = glue::read_named(&once);
    crate::runner::note(|| format!("game {}", built.tree.brief()));
    crate::runner::note(|| format!("profile ({}) {:?}", source, before));
    crate::runner::note(|| format!("truncate({:e}) [{}] -> {:?}", h, hkind, named));
    let (after, lost_action, emptied, near_threshold) = match check_step(info, &before, &named, h) {
        Ok(x) => x,
        Err(v) => return v,
    };
    let info_after = once.get_info();
    for p in 0..2 {
        if !info_after.player_regret(pnum(p)).is_finite() || !info_after.player_utility(pnum(p)).is_finite() {
            return Verdict::fail("C18/evaluation-not-finite", format!("get_info after truncate({}) is not finite", h));
        }
    }
    // a threshold below every positive probability changes nothing
    let min_pos = before
        .iter()
        .flat_map(|m| m.values().flat_map(|v| v.iter().copied()))
        .filter(|x| *x > 0.0)
        .fold(f64::INFINITY, f64::min);
    if h < min_pos {
        if let Err(m) = profiles_close(&before, &after, 4.0) {
            return Verdict::fail("C18/low-threshold-changes-profile", m);
        }
        labels.push("threshold-below-all");
    }
    // idempotence (not asserted where a probability sits within rounding of the threshold)
    if !near_threshold && !emptied {
        let mut twice = once.clone();
        twice.truncate(h);
        match named_valid(info, &glue::read_named(&twice)) {
            Ok(p2) => {
                if let Err(m) = profiles_close(&after, &p2, 4.0) {
                    return Verdict::fail("C18/not-idempotent", format!("truncate({}) twice differs from once: {}", h, m));
                }
            }
            Err(m) => return Verdict::fail("C18/invalid-profile-after-second-truncation", m),
        }
    }
    // a second truncation of the same object at another threshold (lower, equal or higher): the
    // model is applied to what the object held after the first one
    if s.bool() {
        let (h2, h2kind) = if s.bool() { pick_threshold(&mut s, &before) } else { pick_threshold(&mut s, &after) };
        once.truncate(h2);
        let named2 = glue::read_named(&once);
        crate::runner::note(|| format!("then truncate({:e}) [{}] on the same object -> {:?}", h2, h2kind, named2));
        if let Err(v) = check_step(info, &after, &named2, h2) {
            return match v {
                Verdict::Fail { sig, msg } => Verdict::fail(format!("{}/second-truncation", sig), format!("after truncate({:e}): {}", h, msg)),
                other => other,
            };
        }
        labels.push("second-truncation");
    }
    if lost_action {
        labels.push("lost-an-action");
    }
    if emptied {
        labels.push("no-action-above-threshold");
    }
    Verdict::Pass {
        nontrivial: if lost_action || emptied {
            Some(hash_bytes(format!("{}|{:?}|{}", built.tree.brief(), before, h).as_bytes()))
        } else {
            None
        },
        labels,
    }
}

pub fn describe(bytes: &[u8]) -> Value {
    crate::runner::describe_by_running(check, bytes)
}

pub fn prop() -> Prop {
    Prop {
        id: "C18",
        check,
        describe,
        rule: "small generated games x profiles (injected or solver output) x thresholds from {-inf, -1, 0, a probability of the profile, its neighbours next_up/next_down, mid-points, 1, 2, +inf, tiny positive values down to 5e-324, random}, in half the cases followed by a second truncation of the same object at another such threshold; oracle: per-infoset model (support = actions above h, proportional rescaling within 4 ulp, any distribution when nothing exceeds h), validity predicate of C13, unchanged below the smallest positive probability, idempotence (skipped when a probability is within 1e-9 relative of h). Non-trivial = some infoset loses an action or has no action above h; distinct by (tree, profile, h).",
        max_len: 700,
        cases_quick: 2_000_000,
        cases_thorough: 25_000_000,
        assumptions: &["idempotence is an exact-arithmetic claim; not asserted within 1e-9 relative of a probability"],
        post: None,
        watchdog_s: 60,
        hang_is_violation: false,
        shrink_iters: 3000,
    }
}
