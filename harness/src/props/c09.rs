//! C09 — early termination stops exactly at the first iteration below the threshold
use super::common::*;
use super::solvecmp::*;
use crate::gen::GenCfg;
use crate::glue::{self, Decision, Mode, Recorder};
use crate::refcfr::{Method, Params};
use crate::runner::{Ctx, Prop, Verdict};
use crate::stream::hash_bytes;
use serde_json::{json, Value};

pub struct Case {
    pub built: Built,
    pub method: Method,
    pub params: Params,
    pub params_name: &'static str,
    pub budget: u64,
    pub decision: Decision,
    pub dseed: u64,
    pub picks: Vec<(usize, usize)>,
    /// thread count of the additional multi-threaded runs (0 = none)
    pub threads: usize,
    /// which huge budget the additional run uses
    pub huge: u64,
}

pub fn decode(bytes: &[u8]) -> Case {
    let (mut s, mut gs) = crate::stream::split(bytes, 48);
    let mut cfg = GenCfg::small();
    cfg.max_nodes = 80;
    if !s.chance(64) {
        cfg.generic = true;
    }
    let built = gen_built(&mut gs, &cfg);
    let method = [Method::Full, Method::Sampled, Method::External][s.below(3)];
    let (params, params_name) = if s.bool() { (Params::VANILLA, "vanilla") } else { pick_moderate_params(&mut s) };
    let budget = 1 + s.below(30) as u64;
    let (decision, _) = pick_decision(&mut s);
    let dseed = s.u32() as u64;
    let npicks = 3 + s.below(6);
    let picks = (0..npicks).map(|_| (s.below(7), s.below(30))).collect();
    let threads = if s.bool() { 2 + s.below(7) } else { 0 };
    let huge = [u64::MAX, u64::MAX - 1, 1 << 63, (1 << 32) + 1, 1_000_000_007][s.below(5)];
    Case {
        built,
        method,
        params,
        params_name,
        budget,
        decision,
        dseed,
        picks,
        threads,
        huge,
    }
}

fn next_up(x: f64) -> f64 {
    if x == 0.0 {
        f64::from_bits(1)
    } else if x > 0.0 {
        f64::from_bits(x.to_bits() + 1)
    } else {
        f64::from_bits(x.to_bits() - 1)
    }
}

fn next_down(x: f64) -> f64 {
    -next_up(-x)
}

struct Out {
    solved: glue::Solved,
    last_pass: u64,
}

pub fn check(bytes: &[u8], _ctx: &Ctx) -> Verdict {
    let case = decode(bytes);
    let game = match build_valid("C09", &case.built.tree) {
        Ok(g) => g,
        Err(v) => return v,
    };
    let info = &case.built.info;
    let n = case.budget;
    let run_k = |t: u64, r: f64, threads: usize| -> Result<Out, Verdict> {
        let rec = Recorder::new(if case.method == Method::Full {
            Mode::Observe
        } else {
            Mode::Decide(case.decision.clone(), case.dseed)
        });
        let res = glue::solve_hooked(&game, &rec, case.method, t, r, threads, Some(glue::lib_params(&case.params)));
        let solved = glue::unpack(info, res).map_err(|m| Verdict::fail("C09/invalid-result", m))?;
        let last_pass = rec.draws().iter().map(|d| d.pass).max().unwrap_or(0);
        Ok(Out { solved, last_pass })
    };
    let run = |t: u64, r: f64| run_k(t, r, 1);
    let mut prefix = Vec::new();
    for t in 1..=n {
        match run(t, 0.0) {
            Ok(o) => prefix.push(o),
            Err(v) => return v,
        }
    }
    // determinism of the single threaded run under fixed decisions (precondition of the oracle)
    match run(n, 0.0) {
        Ok(again) => {
            if again.solved.prof != prefix[n as usize - 1].solved.prof {
                return Verdict::fail("C09/nondeterministic", "two identical single-threaded runs under fixed sampling decisions differ");
            }
        }
        Err(v) => return v,
    }
    let bounds: Vec<f64> = prefix.iter().map(|o| o.solved.total_bound).collect();
    let mut labels = vec![case.params_name, method_name(case.method)];
    // a budget of zero admits no pass at all, whatever the threshold: nothing is drawn, the
    // profile is the initial uniform one and no bound has been established
    for (r, rname) in [(0.0, "zero"), (f64::INFINITY, "plus-inf"), (bounds[0], "first-bound")] {
        let z = match run(0, r) {
            Ok(o) => o,
            Err(v) => return v,
        };
        let d = max_diff(&z.solved.prof, &crate::tree::uniform_profile(info)).0;
        if z.last_pass != 0 || d > 1e-12 || z.solved.bounds.iter().any(|b| *b != f64::INFINITY) {
            return Verdict::fail(
                "C09/budget-exceeded/zero-budget",
                format!(
                    "{} {:?} budget 0 threshold {} ({}): last pass with a draw {}, bounds {:?}, distance from the uniform profile {}; a budget of zero must not run an iteration",
                    method_name(case.method), case.params, r, rname, z.last_pass, z.solved.bounds, d
                ),
            );
        }
    }
    let mut nontrivial = false;
    for (kind, which) in case.picks.iter() {
        let bt = bounds[*which % bounds.len()];
        let (r, rname) = match kind {
            0 => (0.0, "zero"),
            1 => (-1.0, "negative"),
            2 => (f64::NAN, "nan"),
            3 => (f64::INFINITY, "plus-inf"),
            4 => (bt, "at-a-bound"),
            5 => (next_up(bt), "just-above-a-bound"),
            _ => (next_down(bt), "just-below-a-bound"),
        };
        let tstar = bounds.iter().position(|b| *b < r).map(|i| i as u64 + 1).unwrap_or(n);
        let got = match run(n, r) {
            Ok(o) => o,
            Err(v) => return v,
        };
        let want = &prefix[tstar as usize - 1];
        if got.solved.prof != want.solved.prof || got.solved.bounds != want.solved.bounds {
            // which prefix does it equal, if any?
            let equals = prefix
                .iter()
                .position(|o| o.solved.prof == got.solved.prof && o.solved.bounds == got.solved.bounds)
                .map(|i| format!("it equals the run with budget {}", i + 1))
                .unwrap_or_else(|| "it equals no prefix run".to_string());
            return Verdict::fail(
                format!("C09/wrong-stop/{}", rname),
                format!(
                    "{} {:?} budget {} threshold {} ({}): bounds along the run {:?}; expected the result of budget {}, but {}",
                    method_name(case.method), case.params, n, r, rname, bounds, tstar, equals
                ),
            );
        }
        if tstar < n && !(got.solved.total_bound < r) {
            return Verdict::fail("C09/stopped-above-threshold", format!("returned bound {} is not below {}", got.solved.total_bound, r));
        }
        if case.method != Method::Full && got.last_pass > want.last_pass {
            return Verdict::fail("C09/budget-exceeded", format!("draws in pass {} although the run should end after pass {}", got.last_pass, want.last_pass));
        }
        labels.push(rname);
        if tstar >= 1 && tstar < n {
            let i = tstar as usize - 1;
            let distinct_before = i == 0 || prefix[i - 1].solved.prof != prefix[i].solved.prof;
            let distinct_after = prefix[i + 1].solved.prof != prefix[i].solved.prof;
            if distinct_before && distinct_after {
                nontrivial = true;
                labels.push("early-stop");
            }
        }
    }
    // a budget far beyond the stopping iteration must not matter ("the budget is never exceeded",
    // and u64::MAX is what the documentation recommends together with a threshold)
    {
        // a threshold that some prefix run undercuts: between the smallest bound and the next one
        let mut sorted: Vec<f64> = bounds.iter().copied().filter(|b| b.is_finite()).collect();
        sorted.sort_by(|a, b| a.partial_cmp(b).unwrap());
        sorted.dedup();
        let r = match sorted.len() {
            0 => f64::INFINITY,
            1 => next_up(sorted[0]),
            _ => [f64::INFINITY, next_up(sorted[0]), sorted[sorted.len() / 2], sorted[sorted.len() - 1]][case.picks[0].1 % 4],
        };
        if let Some(i) = bounds.iter().position(|b| *b < r) {
            // first a budget only slightly beyond N: a threshold that is ignored shows up here as
            // a wrong result instead of a run that takes forever with the huge budget
            let near = match run(n + 7, r) {
                Ok(o) => o,
                Err(v) => return v,
            };
            if near.solved.prof != prefix[i].solved.prof || near.solved.bounds != prefix[i].solved.bounds {
                return Verdict::fail(
                    "C09/wrong-stop/larger-budget",
                    format!(
                        "{} {:?} budget {} threshold {}: bounds along the run {:?}; expected the result of budget {} (bounds {:?}), got bounds {:?}",
                        method_name(case.method), case.params, n + 7, r, bounds, i + 1, prefix[i].solved.bounds, near.solved.bounds
                    ),
                );
            }
            // a run that ignored the threshold would be indistinguishable from one that honoured it
            // if the iterates no longer change; then the huge budget would only be a very long run
            let unstopped = match run(n + 7, 0.0) {
                Ok(o) => o,
                Err(v) => return v,
            };
            if unstopped.solved.prof == prefix[i].solved.prof && unstopped.solved.bounds == prefix[i].solved.bounds {
                labels.push("huge-budget-skipped-iterates-constant");
            } else {
                let got = match run(case.huge, r) {
                    Ok(o) => o,
                    Err(v) => return v,
                };
                let want = &prefix[i];
                if got.solved.prof != want.solved.prof || got.solved.bounds != want.solved.bounds {
                    return Verdict::fail(
                        "C09/wrong-stop/huge-budget",
                        format!(
                            "{} {:?} budget {} threshold {}: bounds along the run {:?}; expected the result of budget {} (bounds {:?}), got bounds {:?}",
                            method_name(case.method), case.params, case.huge, r, bounds, i + 1, want.solved.bounds, got.solved.bounds
                        ),
                    );
                }
                labels.push("huge-budget");
            }
        }
    }
    // several threads: same stopping rule (compared within tolerance, thresholds away from every bound)
    if case.threads >= 2 {
        let prep = match prepare("C09", &case.built, &game) {
            Ok(p) => p,
            Err(v) => return v,
        };
        let guard = reference_guard(&prep, case.method, case.params, n, &case.decision, case.dseed, false, crate::refcfr::TieRule::LastMaxFirstMin);
        let robust = matches!(&guard, Ok(g) if g.t_eff == n && g.result.tie_used_at.is_none());
        if robust {
            let mut thresholds: Vec<(f64, &'static str)> = vec![(0.0, "zero"), (-1.0, "negative"), (f64::NAN, "nan"), (f64::INFINITY, "plus-inf")];
            let mut sorted: Vec<f64> = bounds.iter().copied().filter(|b| b.is_finite() && *b > 0.0).collect();
            sorted.sort_by(|a, b| a.partial_cmp(b).unwrap());
            sorted.dedup();
            for w in sorted.windows(2) {
                if w[1] > w[0] * (1.0 + 1e-4) {
                    thresholds.push(((w[0] + w[1]) / 2.0, "between-two-bounds"));
                }
            }
            let pick = case.picks.iter().map(|(a, b)| a + b).sum::<usize>();
            for j in 0..2 {
                let (r, rname) = thresholds[(pick + j * 5) % thresholds.len()];
                let tstar = bounds.iter().position(|b| *b < r).map(|i| i as u64 + 1).unwrap_or(n);
                let got = match run_k(n, r, case.threads) {
                    Ok(o) => o,
                    Err(v) => return v,
                };
                let want = &prefix[tstar as usize - 1];
                let (d, at) = max_diff(&want.solved.prof, &got.solved.prof);
                // relative to the size of the game's numbers: a bound that is zero up to rounding
                // is a different residue with every summation order
                let scale = crate::oracle::scale_of(&case.built.tree);
                let bound_off = (0..2).any(|p| {
                    let (a, b) = (want.solved.bounds[p], got.solved.bounds[p]);
                    !(a == b || (a - b).abs() <= 1e-6 * scale.max(a.abs()))
                });
                if d > 1e-6 || bound_off {
                    return Verdict::fail(
                        format!("C09/wrong-stop/threads/{}", rname),
                        format!(
                            "{} {:?} budget {} threshold {} with {} threads: expected the one-thread result of budget {} (bounds {:?}), got bounds {:?}, strategies differ by {} at {}; bounds along the run {:?}",
                            method_name(case.method), case.params, n, r, case.threads, tstar, want.solved.bounds, got.solved.bounds, d, at, bounds
                        ),
                    );
                }
                labels.push("several-threads");
            }
        } else {
            labels.push("several-threads-skipped-by-guard");
        }
    }
    Verdict::Pass {
        nontrivial: if nontrivial {
            Some(hash_bytes(format!("{}|{:?}|{:?}|{}|{:?}", case.built.tree.brief(), case.method, case.params, n, case.picks).as_bytes()))
        } else {
            None
        },
        labels,
    }
}

pub fn describe(bytes: &[u8]) -> Value {
    let c = decode(bytes);
    json!({
        "family": c.built.family, "game": c.built.tree.brief(), "method": method_name(c.method),
        "params": format!("{:?}", c.params), "budget": c.budget, "threshold_picks": format!("{:?}", c.picks), "extra_threads": c.threads, "huge_budget": c.huge,
        "decision": format!("{:?}", c.decision),
    })
}

pub fn prop() -> Prop {
    Prop {
        id: "C09",
        check,
        describe,
        rule: "small generated games x {Full, Sampled, External} (sampled ones under a pure decision function, so single-threaded runs are bit-deterministic) x parameters (half vanilla) x budget N in 1..30 x 3-8 thresholds from {0, -1, NaN, +inf, b_t, next_up(b_t), next_down(b_t)} where b_t are the total bounds of the prefix runs solve(m, t, 0); oracle: solve(m, N, r) equals bitwise the prefix run with budget t* = first t with b_t < r (N if none); the returned bound is < r iff t* < N; no draw after the last pass of t*; solve(m, 0, r) for r in {0, +inf, b_1} draws nothing and returns the uniform profile with infinite bounds; one more run with a huge budget (u64::MAX, u64::MAX-1, 2^63, ...) and a threshold some prefix undercuts must equal that prefix bitwise; in half the cases two more runs with 2..8 threads and thresholds from {0, -1, NaN, +inf, mid-points between distinct bounds} must equal the one-thread prefix run within 1e-6 (only when the reference model's conditioning guard admits all N iterations). Non-trivial = 1 <= t* < N with the neighbouring prefix results distinct; distinct by (tree, method, parameters, N, thresholds).",
        max_len: 600,
        cases_quick: 30_000,
        cases_thorough: 500_000,
        assumptions: &["single-threaded runs under hook-fixed decisions are deterministic (checked in every case)"],
        post: None,
        watchdog_s: 60,
        hang_is_violation: false,
        shrink_iters: 1500,
    }
}
