//! C09 — early termination stops exactly at the first iteration below the threshold
use super::common::*;
use super::solvecmp::*;
use crate::gen::GenCfg;
use crate::glue::{self, Decision, Mode, Recorder};
use crate::refcfr::{Method, Params};
use crate::runner::{Ctx, Prop, Verdict};
use crate::stream::hash_bytes;
use serde_json::{json, Value};

pub struct Case {
    pub built: Built,
    pub method: Method,
    pub params: Params,
    pub params_name: &'static str,
    pub budget: u64,
    pub decision: Decision,
    pub dseed: u64,
    pub picks: Vec<(usize, usize)>,
}

pub fn decode(bytes: &[u8]) -> Case {
    let (mut s, mut gs) = crate::stream::split(bytes, 48);
    let mut cfg = GenCfg::small();
    cfg.max_nodes = 80;
    if !s.chance(64) {
        cfg.generic = true;
    }
    let built = gen_built(&mut gs, &cfg);
    let method = [Method::Full, Method::Sampled, Method::External][s.below(3)];
    let (params, params_name) = if s.bool() { (Params::VANILLA, "vanilla") } else { pick_moderate_params(&mut s) };
    let budget = 1 + s.below(30) as u64;
    let (decision, _) = pick_decision(&mut s);
    let dseed = s.u32() as u64;
    let npicks = 3 + s.below(6);
    let picks = (0..npicks).map(|_| (s.below(7), s.below(30))).collect();
    Case {
        built,
        method,
        params,
        params_name,
        budget,
        decision,
        dseed,
        picks,
    }
}

fn next_up(x: f64) -> f64 {
    if x == 0.0 {
        f64::from_bits(1)
    } else if x > 0.0 {
        f64::from_bits(x.to_bits() + 1)
    } else {
        f64::from_bits(x.to_bits() - 1)
    }
}

fn next_down(x: f64) -> f64 {
    -next_up(-x)
}

struct Out {
    solved: glue::Solved,
    last_pass: u64,
}

pub fn check(bytes: &[u8], _ctx: &Ctx) -> Verdict {
    let case = decode(bytes);
    let game = match build_valid("C09", &case.built.tree) {
        Ok(g) => g,
        Err(v) => return v,
    };
    let info = &case.built.info;
    let n = case.budget;
    let run = |t: u64, r: f64| -> Result<Out, Verdict> {
        let rec = Recorder::new(if case.method == Method::Full {
            Mode::Observe
        } else {
            Mode::Decide(case.decision.clone(), case.dseed)
        });
        let res = glue::solve_hooked(&game, &rec, case.method, t, r, 1, Some(glue::lib_params(&case.params)));
        let solved = glue::unpack(info, res).map_err(|m| Verdict::fail("C09/invalid-result", m))?;
        let last_pass = rec.draws().iter().map(|d| d.pass).max().unwrap_or(0);
        Ok(Out { solved, last_pass })
    };
    let mut prefix = Vec::new();
    for t in 1..=n {
        match run(t, 0.0) {
            Ok(o) => prefix.push(o),
            Err(v) => return v,
        }
    }
    // determinism of the single threaded run under fixed decisions (precondition of the oracle)
    match run(n, 0.0) {
        Ok(again) => {
            if again.solved.prof != prefix[n as usize - 1].solved.prof {
                return Verdict::fail("C09/nondeterministic", "two identical single-threaded runs under fixed sampling decisions differ");
            }
        }
        Err(v) => return v,
    }
    let bounds: Vec<f64> = prefix.iter().map(|o| o.solved.total_bound).collect();
    let mut labels = vec![case.params_name, method_name(case.method)];
    let mut nontrivial = false;
    for (kind, which) in case.picks.iter() {
        let bt = bounds[*which % bounds.len()];
        let (r, rname) = match kind {
            0 => (0.0, "zero"),
            1 => (-1.0, "negative"),
            2 => (f64::NAN, "nan"),
            3 => (f64::INFINITY, "plus-inf"),
            4 => (bt, "at-a-bound"),
            5 => (next_up(bt), "just-above-a-bound"),
            _ => (next_down(bt), "just-below-a-bound"),
        };
        let tstar = bounds.iter().position(|b| *b < r).map(|i| i as u64 + 1).unwrap_or(n);
        let got = match run(n, r) {
            Ok(o) => o,
            Err(v) => return v,
        };
        let want = &prefix[tstar as usize - 1];
        if got.solved.prof != want.solved.prof || got.solved.bounds != want.solved.bounds {
            // which prefix does it equal, if any?
            let equals = prefix
                .iter()
                .position(|o| o.solved.prof == got.solved.prof && o.solved.bounds == got.solved.bounds)
                .map(|i| format!("it equals the run with budget {}", i + 1))
                .unwrap_or_else(|| "it equals no prefix run".to_string());
            return Verdict::fail(
                format!("C09/wrong-stop/{}", rname),
                format!(
                    "{} {:?} budget {} threshold {} ({}): bounds along the run {:?}; expected the result of budget {}, but {}",
                    method_name(case.method), case.params, n, r, rname, bounds, tstar, equals
                ),
            );
        }
        if tstar < n && !(got.solved.total_bound < r) {
            return Verdict::fail("C09/stopped-above-threshold", format!("returned bound {} is not below {}", got.solved.total_bound, r));
        }
        if case.method != Method::Full && got.last_pass > want.last_pass {
            return Verdict::fail("C09/budget-exceeded", format!("draws in pass {} although the run should end after pass {}", got.last_pass, want.last_pass));
        }
        labels.push(rname);
        if tstar >= 1 && tstar < n {
            let i = tstar as usize - 1;
            let distinct_before = i == 0 || prefix[i - 1].solved.prof != prefix[i].solved.prof;
            let distinct_after = prefix[i + 1].solved.prof != prefix[i].solved.prof;
            if distinct_before && distinct_after {
                nontrivial = true;
                labels.push("early-stop");
            }
        }
    }
    Verdict::Pass {
        nontrivial: if nontrivial {
            Some(hash_bytes(format!("{}|{:?}|{:?}|{}|{:?}", case.built.tree.brief(), case.method, case.params, n, case.picks).as_bytes()))
        } else {
            None
        },
        labels,
    }
}

pub fn describe(bytes: &[u8]) -> Value {
    let c = decode(bytes);
    json!({
        "family": c.built.family, "game": c.built.tree.brief(), "method": method_name(c.method),
        "params": format!("{:?}", c.params), "budget": c.budget, "threshold_picks": format!("{:?}", c.picks),
        "decision": format!("{:?}", c.decision),
    })
}

pub fn prop() -> Prop {
    Prop {
        id: "C09",
        check,
        describe,
        rule: "small generated games x {Full, Sampled, External} (sampled ones under a pure decision function, so single-threaded runs are bit-deterministic) x parameters (half vanilla) x budget N in 1..30 x 3-8 thresholds from {0, -1, NaN, +inf, b_t, next_up(b_t), next_down(b_t)} where b_t are the total bounds of the prefix runs solve(m, t, 0); oracle: solve(m, N, r) equals bitwise the prefix run with budget t* = first t with b_t < r (N if none); the returned bound is < r iff t* < N; no draw after the last pass of t*. Non-trivial = 1 <= t* < N with the neighbouring prefix results distinct; distinct by (tree, method, parameters, N, thresholds).",
        max_len: 600,
        cases_quick: 6_000,
        cases_thorough: 150_000,
        assumptions: &["single-threaded runs under hook-fixed decisions are deterministic (checked in every case)"],
        post: None,
        watchdog_s: 60,
        shrink_iters: 1500,
    }
}
