//! C06 / C07 — the thread count is purely a performance setting
//! (C06: unsampled method; C07: sampled methods once the random choices are fixed)
use super::common::*;
use super::solvecmp::*;
use crate::gen::GenCfg;
use crate::glue::{self, Decision, Mode, Recorder};
use crate::oracle;
use crate::refcfr::{Kind, Method, Params};
use crate::runner::{Ctx, Prop, Verdict};
use crate::stream::{hash_bytes, Stream};
use serde_json::{json, Value};
use std::collections::BTreeMap;
use std::panic::{catch_unwind, AssertUnwindSafe};

pub struct Case {
    pub built: Built,
    pub method: Method,
    pub params: Params,
    pub params_name: &'static str,
    pub iters: u64,
    pub threads: usize,
    pub decision: Decision,
    pub decision_name: &'static str,
    pub dseed: u64,
    pub with_threshold: bool,
    pub threshold_pick: usize,
}

pub fn decode(bytes: &[u8], sampled: bool) -> Case {
    let (mut s, mut gs) = crate::stream::split(bytes, 40);
    let mut cfg = GenCfg::wide();
    if s.chance(64) {
        cfg.generic = false;
        cfg.families = true;
    }
    let built = gen_built(&mut gs, &cfg);
    let method = if sampled {
        if s.bool() {
            Method::External
        } else {
            Method::Sampled
        }
    } else {
        Method::Full
    };
    let (params, params_name) = pick_moderate_params(&mut s);
    let iters = match s.weighted(&[1, 4, 4, 4, 2, 2, 1, 1, 1]) {
        8 => 50,
        k => k as u64 + 1,
    };
    let threads = 2 + s.below(15);
    let (decision, decision_name) = if sampled { pick_decision(&mut s) } else { (Decision::First, "none") };
    let dseed = s.u32() as u64;
    let with_threshold = s.chance(64);
    let threshold_pick = s.below(8);
    Case {
        built,
        method,
        params,
        params_name,
        iters,
        threads,
        decision,
        decision_name,
        dseed,
        with_threshold,
        threshold_pick,
    }
}

struct Run {
    solved: glue::Solved,
    draws: Vec<glue::Draw>,
    max_tasks: usize,
    fragile: bool,
}

fn run_lib(
    case: &Case,
    game: &glue::G,
    iters: u64,
    threshold: f64,
    threads: usize,
) -> Result<Run, Verdict> {
    let id = if case.method == Method::Full { "C06" } else { "C07" };
    let rec = Recorder::new(if case.method == Method::Full {
        Mode::Observe
    } else {
        Mode::Decide(case.decision.clone(), case.dseed)
    });
    let res = catch_unwind(AssertUnwindSafe(|| {
        glue::solve_hooked(game, &rec, case.method, iters, threshold, threads, Some(glue::lib_params(&case.params)))
    }));
    let res = match res {
        Ok(r) => r,
        Err(_) => {
            return Err(Verdict::fail(
                format!("{}/panic-with-{}-threads", id, if threads == 1 { "one" } else { "several" }),
                format!("solve panicked with {} threads", threads),
            ))
        }
    };
    let solved = glue::unpack(&case.built.info, res).map_err(|m| Verdict::fail(format!("{}/invalid-result", id), m))?;
    Ok(Run {
        solved,
        draws: rec.draws(),
        max_tasks: rec.max_tasks(),
        fragile: rec.fragile.load(std::sync::atomic::Ordering::SeqCst),
    })
}

fn compare_runs(id: &str, case: &Case, one: &Run, many: &Run, scale: f64, threads: usize, what: &str) -> Result<(), Verdict> {
    let (d, at) = max_diff(&one.solved.prof, &many.solved.prof);
    if d > 1e-6 {
        return Err(Verdict::fail(
            format!("{}/strategies-differ", id),
            format!("{}: strategies with {} threads differ from one thread by {} at {}", what, threads, d, at),
        ));
    }
    for p in 0..2 {
        let (a, b) = (one.solved.bounds[p], many.solved.bounds[p]);
        let tol = 1e-6 * scale.max(a.abs());
        if !((a - b).abs() <= tol || (a == b)) {
            return Err(Verdict::fail(
                format!("{}/bounds-differ", id),
                format!("{}: bound of player {} is {} with one thread but {} with {} threads", what, p + 1, a, b, threads),
            ));
        }
    }
    if case.method != Method::Full {
        // identical sets of draws with identical presented weights, at most one per (infoset, pass)
        let index = |r: &Run| -> Result<BTreeMap<(Kind, usize, u64), (Vec<f64>, usize)>, Verdict> {
            let mut m = BTreeMap::new();
            for d in r.draws.iter() {
                if m.insert((d.kind, d.slot, d.pass), (d.weights.clone(), d.used)).is_some() {
                    return Err(Verdict::fail(
                        format!("{}/two-draws-in-one-pass", id),
                        format!("{}: {:?} infoset {} drew twice in pass {}", what, d.kind, d.slot, d.pass),
                    ));
                }
            }
            Ok(m)
        };
        let a = index(one)?;
        let b = index(many)?;
        for (k, (w, c)) in a.iter() {
            match b.get(k) {
                None => {
                    return Err(Verdict::fail(
                        format!("{}/draw-sets-differ", id),
                        format!("{}: draw {:?} happens with one thread but not with {}", what, k, threads),
                    ))
                }
                Some((w2, c2)) => {
                    if w.len() != w2.len() || w.iter().zip(w2.iter()).any(|(x, y)| (x - y).abs() > 1e-9) {
                        return Err(Verdict::fail(
                            format!("{}/draw-weights-differ", id),
                            format!("{}: draw {:?} was presented {:?} with one thread but {:?} with {}", what, k, w, w2, threads),
                        ));
                    }
                    if c != c2 {
                        return Err(Verdict::fail(format!("{}/draw-choice-differs", id), format!("{}: draw {:?}", what, k)));
                    }
                }
            }
        }
        for k in b.keys() {
            if !a.contains_key(k) {
                return Err(Verdict::fail(
                    format!("{}/draw-sets-differ", id),
                    format!("{}: draw {:?} happens with {} threads but not with one", what, k, threads),
                ));
            }
        }
    }
    Ok(())
}

fn check_generic(bytes: &[u8], _ctx: &Ctx, sampled: bool) -> Verdict {
    let id = if sampled { "C07" } else { "C06" };
    cfr::verif::set_yield_mode(0x9E37_79B9 ^ hash_bytes(bytes));
    let case = decode(bytes, sampled);
    let game = match build_valid(id, &case.built.tree) {
        Ok(g) => g,
        Err(v) => return v,
    };
    let prep = match prepare(id, &case.built, &game) {
        Ok(p) => p,
        Err(v) => return v,
    };
    let guard = match reference_guard(&prep, case.method, case.params, case.iters, &case.decision, case.dseed, false, crate::refcfr::TieRule::LastMaxFirstMin) {
        Ok(g) => g,
        Err(why) => return Verdict::Discard(why),
    };
    let t = guard.t_eff;
    let scale = oracle::scale_of(&case.built.tree);
    let one = match run_lib(&case, &game, t, 0.0, 1) {
        Ok(r) => r,
        Err(v) => return v,
    };
    if one.fragile {
        return Verdict::Discard("decision-within-margin");
    }
    // the guard is only meaningful if the reference trajectory is the library's (C08 decides
    // whether it should be; here a mismatch only means the margins say nothing about this run)
    if max_diff(&one.solved.prof, &ref_profile(&prep.rg, &guard.result.avg)).0 > 1e-6 {
        return Verdict::Discard("reference-does-not-track-the-library");
    }
    let mut labels = vec![case.params_name, method_name(case.method)];
    if sampled {
        labels.push(case.decision_name);
    }
    let mut max_tasks = 0;
    for rep in 0..3 {
        let many = match run_lib(&case, &game, t, 0.0, case.threads) {
            Ok(r) => r,
            Err(v) => return v,
        };
        max_tasks = max_tasks.max(many.max_tasks);
        if let Err(v) = compare_runs(id, &case, &one, &many, scale, case.threads, &format!("T={} repeat {}", t, rep)) {
            return v;
        }
    }
    // same early stop for a threshold between two consecutive bound values
    if case.with_threshold && t >= 2 {
        let mut bounds = Vec::new();
        for tt in 1..=t {
            match run_lib(&case, &game, tt, 0.0, 1) {
                Ok(r) => bounds.push(r.solved.total_bound),
                Err(v) => return v,
            }
        }
        // candidate thresholds: mid-points between distinct neighbours (sorted), well separated
        let mut sorted = bounds.clone();
        sorted.sort_by(|a, b| a.partial_cmp(b).unwrap());
        let mut mids = Vec::new();
        for w in sorted.windows(2) {
            if w[1] - w[0] > 1e-4 * scale.max(w[1].abs()) {
                mids.push(0.5 * (w[0] + w[1]));
            }
        }
        if !mids.is_empty() {
            let r = mids[case.threshold_pick % mids.len()];
            let a = match run_lib(&case, &game, t, r, 1) {
                Ok(x) => x,
                Err(v) => return v,
            };
            let b = match run_lib(&case, &game, t, r, case.threads) {
                Ok(x) => x,
                Err(v) => return v,
            };
            if let Err(v) = compare_runs(id, &case, &a, &b, scale, case.threads, &format!("T={} threshold {}", t, r)) {
                return v;
            }
            labels.push("threshold-run");
        }
    }
    if t < case.iters {
        labels.push("truncated-by-guard");
    }
    let has_draws = !sampled || !one.draws.is_empty();
    let nontrivial = max_tasks >= 2 && t >= 2 && has_draws;
    if max_tasks >= 2 {
        labels.push("parallel-tasks");
    }
    Verdict::Pass {
        nontrivial: if nontrivial {
            Some(hash_bytes(format!("{}|{:?}|{}|{}|{:?}|{}", case.built.tree.brief(), case.params, t, case.threads, case.decision, case.dseed).as_bytes()))
        } else {
            None
        },
        labels,
    }
}

pub fn check06(bytes: &[u8], ctx: &Ctx) -> Verdict {
    check_generic(bytes, ctx, false)
}

pub fn check07(bytes: &[u8], ctx: &Ctx) -> Verdict {
    check_generic(bytes, ctx, true)
}

fn describe_generic(bytes: &[u8], sampled: bool) -> Value {
    let c = decode(bytes, sampled);
    json!({
        "family": c.built.family,
        "nodes": c.built.info.num_nodes,
        "game": if c.built.info.num_nodes <= 60 { c.built.tree.brief() } else { format!("({} nodes)", c.built.info.num_nodes) },
        "method": method_name(c.method), "params": format!("{:?}", c.params), "iterations": c.iters, "threads": c.threads,
        "decision": format!("{:?}", c.decision), "decision_seed": c.dseed,
    })
}

pub fn describe06(bytes: &[u8]) -> Value {
    describe_generic(bytes, false)
}

pub fn describe07(bytes: &[u8]) -> Value {
    describe_generic(bytes, true)
}

pub fn prop06() -> Prop {
    Prop {
        id: "C06",
        check: check06,
        describe: describe06,
        rule: "wide generated games (up to 600 nodes, generic real payoffs) x presets and random parameter tuples x T in 1..8 (rarely 50) x k in 2..16 threads, 3 repeated k-thread runs each under injected yields and 16-way oversubscription, optionally a threshold between two bound values; oracle: differential against the same call with one thread (strategies within 1e-6, bounds within 1e-6 relative), applied only up to the last iteration the reference model's conditioning guard classifies as robust to summation order. Non-trivial = at least 2 parallel tasks started in some iteration (counted by the task hook) and T >= 2; distinct by (tree, parameters, T, k).",
        max_len: 1400,
        cases_quick: 6_000,
        cases_thorough: 200_000,
        assumptions: &[
            "real threads: the harness does not own the scheduler; interleaving-dependent lost updates are sought statistically only",
            "comparison skipped beyond the first iteration whose regret-matching branch lies within 1e-9 of a discontinuity",
        ],
        post: None,
        watchdog_s: 60,
        hang_is_violation: true,
        shrink_iters: 300,
    }
}

pub fn prop07() -> Prop {
    Prop {
        id: "C07",
        check: check07,
        describe: describe07,
        rule: "as C06 with the chance-sampled and external-sampled methods and every draw replaced, through the sampling hook, by a pure function of (site kind, infoset, pass, weights): proportional inverse CDF on a hashed variate, uniform over the support, first, last, scripted; oracle: k threads versus one thread: strategies, bounds, and the draw logs (same set of (kind, infoset, pass), same presented weights within 1e-9, at most one draw per infoset and pass, no panic). Non-trivial = at least 2 parallel tasks, T >= 2 and at least one draw; distinct by (tree, parameters, T, k, decision function).",
        max_len: 1400,
        cases_quick: 6_000,
        cases_thorough: 200_000,
        assumptions: &[
            "real threads: the harness does not own the scheduler",
            "cases where a draw lies within 1e-9 of a cumulative boundary or a weight within (0,1e-6) are discarded",
        ],
        post: None,
        watchdog_s: 60,
        hang_is_violation: true,
        shrink_iters: 300,
    }
}
