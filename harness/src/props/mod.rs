pub mod c01;
pub mod c02;
pub mod c03;
pub mod c04;
pub mod c05;
pub mod c06;
pub mod c08;
pub mod c09;
pub mod c10;
pub mod c11;
pub mod c12;
pub mod c13;
pub mod c14;
pub mod c15;
pub mod c16;
pub mod c17;
pub mod c18;
pub mod c19;
pub mod common;
pub mod solvecmp;

use crate::runner::Prop;

pub fn all() -> Vec<Prop> {
    vec![c01::prop(), c02::prop(), c03::prop(), c04::prop(), c05::prop(), c06::prop06(), c06::prop07(), c08::prop(), c09::prop(), c10::prop(), c11::prop(), c12::prop(), c13::prop(), c14::prop(), c15::prop(), c16::prop(), c17::prop(), c18::prop(), c19::prop()]
}
