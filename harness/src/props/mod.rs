pub mod c01;

use crate::runner::Prop;

pub fn all() -> Vec<Prop> {
    vec![c01::prop()]
}
