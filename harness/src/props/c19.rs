//! C19 — strategy distance is a well-defined, bounded, symmetric dissimilarity
use super::common::*;
use crate::gen::{gen_profile, GenCfg};
use crate::glue;
use crate::runner::{Ctx, Prop, Verdict};
use crate::stream::{hash_bytes, Stream};
use serde_json::{json, Value};
use std::panic::{catch_unwind, AssertUnwindSafe};

pub fn check(bytes: &[u8], _ctx: &Ctx) -> Verdict {
    let (mut s, mut gs) = crate::stream::split(bytes, 128);
    let built = gen_built(&mut gs, &GenCfg::small());
    let game = match build_valid("C19", &built.tree) {
        Ok(g) => g,
        Err(v) => return v,
    };
    let info = &built.info;
    let pa = gen_profile(&mut s, info);
    let relation = s.below(5);
    let mut pb = match relation {
        0 => pa.clone(),
        _ => gen_profile(&mut s, info),
    };
    if relation == 1 {
        // differ from a in exactly one infoset
        let mut copy = pa.clone();
        let p = s.below(2);
        if !copy[p].is_empty() {
            let keys: Vec<String> = copy[p].keys().cloned().collect();
            let k = &keys[s.below(keys.len())];
            let tiny = s.bool();
            let v = copy[p].get_mut(k).unwrap();
            if tiny {
                // move 1e-12 from the largest entry to another one
                let d = 1e-12;
                let mut big = 0;
                for i in 1..v.len() {
                    if v[i] > v[big] {
                        big = i;
                    }
                }
                let other = if big == 0 { 1 } else { 0 };
                v[big] -= d;
                v[other] += d;
            } else {
                *v = pb[p][k].clone();
            }
        }
        pb = copy;
    }
    let sa = match glue::inject(&game, info, &pa) {
        Ok(x) => x,
        Err(e) => return Verdict::fail("harness/valid-profile-rejected", format!("{:?}", e)),
    };
    let sb = match glue::inject(&game, info, &pb) {
        Ok(x) => x,
        Err(e) => return Verdict::fail("harness/valid-profile-rejected", format!("{:?}", e)),
    };
    let na = glue::to_profile(info, &glue::read_named(&sa)).unwrap();
    let nb = glue::to_profile(info, &glue::read_named(&sb)).unwrap();
    let p_exp = match s.below(10) {
        0 => 1.0,
        1 => 2.0,
        2 => 0.5,
        3 => 1e-3,
        4 => 10.0,
        5 => 1e3,
        6 => 0.01 + 4.0 * s.unit(),
        // exponents at which every |l-r|^p, l^p and r^p of a mixed infoset underflows
        7 => [3e3, 1e4, 1e6, 1e300, f64::MAX, 1e-300, 5e-324][s.below(7)],
        8 => 1.0 + 3000.0 * s.unit(),
        _ => f64::INFINITY,
    };
    let mut labels = vec![["identical", "one-infoset-differs", "independent", "independent", "independent"][relation]];
    // documented panics: non-positive p
    if s.chance(16) {
        let bad = [0.0, -1.0, -0.0, f64::NEG_INFINITY][s.below(4)];
        // between two objects, between an object and its clone, and of an object with itself
        let clone = sa.clone();
        let who = s.below(3);
        let res = catch_unwind(AssertUnwindSafe(|| match who {
            0 => sa.distance(&sb, bad),
            1 => sa.distance(&clone, bad),
            _ => sa.distance(&sa, bad),
        }));
        if res.is_ok() {
            return Verdict::fail(
                "C19/no-panic-nonpositive-p",
                format!("distance with p = {} did not panic ({})", bad, ["two profiles", "a profile and its clone", "a profile and itself"][who]),
            );
        }
        labels.push("nonpositive-p-panics");
    }
    // documented panic: another game object, even if structurally equal
    if s.chance(16) {
        let other = glue::build(&built.tree).unwrap();
        let so = glue::inject(&other, info, &pb).unwrap();
        let res = catch_unwind(AssertUnwindSafe(|| sa.distance(&so, 1.0)));
        if res.is_ok() {
            return Verdict::fail("C19/no-panic-other-game", "distance between profiles of two game objects did not panic");
        }
        labels.push("other-game-panics");
    }
    if p_exp == f64::INFINITY {
        // p = +inf is positive; the statement covers p in (0, inf) only, so only totality is observed
        let _ = catch_unwind(AssertUnwindSafe(|| sa.distance(&sb, p_exp)));
        return Verdict::Pass { nontrivial: None, labels: vec!["p-infinite-not-judged"] };
    }
    let d_ab = match catch_unwind(AssertUnwindSafe(|| sa.distance(&sb, p_exp))) {
        Ok(d) => d,
        Err(_) => return Verdict::fail("C19/panic", format!("distance panicked for the same game and p = {}", p_exp)),
    };
    let d_ba = sb.distance(&sa, p_exp);
    // a profile compared with itself (the same object) is at distance zero
    let d_self = sa.distance(&sa, p_exp);
    if d_self != [0.0, 0.0] {
        return Verdict::fail(if d_self.iter().any(|d| d.is_nan()) { "C19/nan" } else { "C19/nonzero-for-equal" }, format!("distance of a profile to itself is {:?} (p = {})", d_self, p_exp));
    }
    crate::runner::note(|| format!("game {}", built.tree.brief()));
    crate::runner::note(|| format!("profile a {:?}", pa));
    crate::runner::note(|| format!("profile b {:?}", pb));
    crate::runner::note(|| format!("p = {}: distance(a,b) = {:?}, distance(b,a) = {:?}", p_exp, d_ab, d_ba));
    let mut disjoint = false;
    let mut no_infosets = false;
    for p in 0..2 {
        let d = d_ab[p];
        let n_inf = info.multi(p).count();
        if n_inf == 0 {
            no_infosets = true;
        }
        if d.is_nan() {
            return Verdict::fail(
                if n_inf == 0 { "C19/nan/player-without-infosets" } else { "C19/nan" },
                format!("distance of player {} is NaN (p = {}, player has {} multi-action infosets)", p + 1, p_exp, n_inf),
            );
        }
        if !(0.0..=1.0).contains(&d) {
            // narrow signature for the documented-range defect: the value is the unnormalised sum
            let mut sum = 0.0;
            for (k, va) in na[p].iter() {
                for (x, y) in va.iter().zip(nb[p][k].iter()) {
                    sum += (x - y).abs().powf(p_exp);
                }
            }
            let unnorm = sum / n_inf as f64;
            let sig = if (unnorm - d).abs() <= 1e-12 * d.abs() && d > 1.0 && d <= 2.0 + 1e-12 {
                "C19/range/mean-of-unnormalised-sums-exceeds-1"
            } else {
                "C19/range"
            };
            return Verdict::fail(sig, format!("distance of player {} is {} (p = {}), outside [0, 1]", p + 1, d, p_exp));
        }
        if d.to_bits() != d_ba[p].to_bits() {
            return Verdict::fail("C19/asymmetric", format!("d(a,b) = {} but d(b,a) = {} for player {}", d, d_ba[p], p + 1));
        }
        let mut max_diff: f64 = 0.0;
        for (k, va) in na[p].iter() {
            let vb = &nb[p][k];
            for (x, y) in va.iter().zip(vb.iter()) {
                max_diff = max_diff.max((x - y).abs());
            }
            if va.iter().zip(vb.iter()).all(|(x, y)| *x == 0.0 || *y == 0.0) {
                disjoint = true;
            }
        }
        if max_diff == 0.0 && d != 0.0 {
            return Verdict::fail("C19/nonzero-for-equal", format!("distance {} for coinciding profiles of player {}", d, p + 1));
        }
        // positivity is only demanded where |difference|^p cannot underflow
        if max_diff > 1e-6 && p_exp <= 10.0 && !(d > 0.0) {
            return Verdict::fail(
                "C19/zero-for-different",
                format!("distance {} although player {}'s profiles differ by {} in some infoset (p = {})", d, p + 1, max_diff, p_exp),
            );
        }
    }
    if disjoint {
        labels.push("disjoint-support-infoset");
    }
    if no_infosets {
        labels.push("player-without-infosets");
    }
    Verdict::Pass {
        nontrivial: if (disjoint || no_infosets) && info.num_multi() >= 1 {
            Some(hash_bytes(format!("{}|{:?}|{:?}|{}", built.tree.brief(), pa, pb, p_exp).as_bytes()))
        } else {
            None
        },
        labels,
    }
}

pub fn describe(bytes: &[u8]) -> Value {
    crate::runner::describe_by_running(check, bytes)
}

pub fn prop() -> Prop {
    Prop {
        id: "C19",
        check,
        describe,
        rule: "small generated games (including players without multi-action infosets) x pairs of profiles (identical; differing in one infoset by 1e-12 or arbitrarily; independent, incl. pure vs pure with disjoint supports) x p in {1e-3, 0.5, 1, 2, 10, 1e3, random in (0,4), random in (1,3000), 3e3, 1e4, 1e6, 1e300, f64::MAX, 1e-300, 5e-324}; oracle: each component in [0,1] and not NaN, 0 for coinciding profiles, > 0 when some infoset differs by > 1e-6 (p <= 10), bitwise symmetric, panics exactly for p <= 0 (also for a profile and its clone or itself) and for another Game object; a profile is at distance 0 from itself. Non-trivial = the game has a multi-action infoset and some infoset has disjoint supports or one player has no infoset; distinct by (tree, profiles, p).",
        max_len: 700,
        cases_quick: 2_000_000,
        cases_thorough: 25_000_000,
        assumptions: &["positivity demanded only for differences > 1e-6 and p <= 10 (|diff|^p may underflow otherwise)", "p = +inf and NaN are outside the stated domain (0, inf)"],
        post: None,
        watchdog_s: 60,
        hang_is_violation: false,
        shrink_iters: 3000,
    }
}
