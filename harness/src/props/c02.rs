//! C02 — the regret bound of an unsampled vanilla solve dominates the true regret
use super::common::*;
use crate::gen::GenCfg;
use crate::glue;
use crate::oracle;
use crate::runner::{Ctx, Failure, Prop, Stats, Tier, Verdict};
use crate::stream::{hash_bytes, mix2};
use cfr::{RegretParams, SolveMethod};
use serde_json::{json, Value};

pub struct Case {
    pub built: Built,
    pub iters: u64,
    pub threads: usize,
    pub rkind: usize,
    pub rt: u64,
}

pub fn decode(bytes: &[u8]) -> Case {
    let (mut s, mut gs) = crate::stream::split(bytes, 16);
    // one case in eight uses the configuration of the thread properties (wide games, and games
    // that give a player several hundred infosets)
    let cfg = match s.weighted(&[26, 6, 4]) {
        0 => GenCfg::small(),
        1 => GenCfg::medium(),
        _ => GenCfg::wide(),
    };
    let built = gen_built(&mut gs, &cfg);
    let iters = match s.weighted(&[16, 4, if built.info.num_nodes <= 40 { 3 } else { 0 }]) {
        0 => 1 + s.below(40) as u64,
        1 => 41 + s.below(160) as u64,
        // long horizons on little games: whatever goes wrong with the average only after a
        // thousand iterations shows up as a regret the shrinking bound no longer covers
        _ => 1000 + ((s.u16() as u64 * 9000) >> 16),
    };
    let threads = if s.weighted(&[3, 1]) == 0 { 1 } else { 2 + s.below(7) };
    let rkind = s.below(8);
    let rt = 1 + s.below(iters as usize) as u64;
    Case {
        built,
        iters,
        threads,
        rkind,
        rt,
    }
}

/// returns (ratio true/bound, labels) or a failing verdict
pub fn evaluate_case(case: &Case) -> Result<(f64, Vec<&'static str>), Verdict> {
    let game = build_valid("C02", &case.built.tree)?;
    let info = &case.built.info;
    let scale = oracle::scale_of(&case.built.tree);
    let tol = 1e-9 * scale;
    let mut labels = Vec::new();
    let solve = |t: u64, r: f64| -> Result<glue::Solved, Verdict> {
        let res = game.solve(SolveMethod::Full, t, r, case.threads, Some(RegretParams::vanilla()));
        glue::unpack(info, res).map_err(|m| Verdict::fail("C02/invalid-result", m))
    };
    let check = |sol: &glue::Solved, r: Option<f64>| -> Result<f64, Verdict> {
        let eval = oracle::evaluate(&case.built.tree, info, &sol.prof, 100_000).map_err(|m| Verdict::fail("harness/oracles-disagree", m))?;
        let truth = f64::max(eval.regret[0], eval.regret[1]);
        for p in 0..2 {
            if !(sol.bounds[p].is_finite() && sol.bounds[p] >= 0.0) {
                return Err(Verdict::fail("C02/player-bound-invalid", format!("bound of player {} is {}", p + 1, sol.bounds[p])));
            }
        }
        if sol.total_bound != f64::max(sol.bounds[0], sol.bounds[1]) {
            return Err(Verdict::fail("C02/total-is-not-max", format!("{} vs {:?}", sol.total_bound, sol.bounds)));
        }
        if !(sol.total_bound >= truth - tol) {
            return Err(Verdict::fail(
                "C02/bound-below-true-regret",
                format!(
                    "T={} threads={}: returned total bound {} (players {:?}) but the true regret of the returned profile is {} (players {:?})",
                    case.iters, case.threads, sol.total_bound, sol.bounds, truth, eval.regret
                ),
            ));
        }
        if let Some(r) = r {
            if sol.total_bound < r && !(truth < r + tol) {
                return Err(Verdict::fail(
                    "C02/early-stop-above-threshold",
                    format!("stopped with bound {} < threshold {} but the true regret is {}", sol.total_bound, r, truth),
                ));
            }
        }
        // ratios of numbers below the tolerance carry no information
        Ok(if sol.total_bound > 0.0 && truth > 100.0 * tol { truth / sol.total_bound } else { 0.0 })
    };
    let sol = solve(case.iters, 0.0)?;
    let ratio = check(&sol, None)?;
    // a thresholded run
    let bt = if case.rkind >= 4 { solve(case.rt, 0.0)?.total_bound } else { 0.0 };
    let r = match case.rkind {
        0 => None,
        1 => Some(f64::NAN),
        2 => Some(-1.0),
        3 => Some(f64::INFINITY),
        4 => Some(bt),
        5 => Some(bt * (1.0 + 1e-12)),
        6 => Some(bt * (1.0 - 1e-12)),
        _ => Some(bt * 1.5),
    };
    if let Some(r) = r {
        let sol2 = solve(case.iters, r)?;
        check(&sol2, Some(r))?;
        if sol2.total_bound < r {
            labels.push("early-stop");
        }
    }
    if case.threads > 1 {
        labels.push("multi-thread");
    }
    if ratio > 0.5 {
        labels.push("tight-ratio-above-0.5");
    }
    if ratio > 0.0 && case.iters >= 2 && sol.total_bound > 0.0 {
        labels.push("positive-bound-and-regret");
    }
    Ok((ratio, labels))
}

pub fn check(bytes: &[u8], _ctx: &Ctx) -> Verdict {
    let case = decode(bytes);
    match evaluate_case(&case) {
        Err(v) => v,
        Ok((ratio, mut labels)) => {
            labels.push(case.built.family);
            Verdict::Pass {
                nontrivial: if ratio > 0.0 && case.iters >= 2 {
                    Some(hash_bytes(format!("{}|{}|{}", case.built.tree.brief(), case.iters, case.threads).as_bytes()))
                } else {
                    None
                },
                labels,
            }
        }
    }
}

pub fn describe(bytes: &[u8]) -> Value {
    let c = decode(bytes);
    json!({"family": c.built.family, "game": if c.built.info.num_nodes <= 60 { c.built.tree.brief() } else { format!("({} nodes)", c.built.info.num_nodes) },
           "iterations": c.iters, "threads": c.threads, "threshold_kind": c.rkind})
}

/// targeted search: hill-climb on the input bytes to maximise true regret / bound
fn targeted(ctx: &Ctx, stats: &mut Stats) -> Vec<Failure> {
    let mut failures = Vec::new();
    let starts = if ctx.tier == Tier::Quick { 16 } else { 64 };
    let steps = if ctx.tier == Tier::Quick { 250 } else { 4000 };
    let results: std::sync::Mutex<Vec<(f64, Vec<u8>)>> = std::sync::Mutex::new(Vec::new());
    let fails: std::sync::Mutex<Vec<Failure>> = std::sync::Mutex::new(Vec::new());
    std::thread::scope(|scope| {
        for start in 0..starts {
            let results = &results;
            let fails = &fails;
            scope.spawn(move || {
                let mut state = mix2(ctx.seed, 7_000 + start as u64);
                let mut next = || {
                    state = crate::stream::mix(state);
                    state
                };
                let len = 60;
                let mut best: Vec<u8> = (0..len).map(|_| next() as u8).collect();
                // one thread, unthresholded, small budgets: where the bound is tightest
                best[0] = 0;
                best[3] = 0;
                let score = |b: &[u8]| -> Result<f64, Failure> {
                    let case = decode(b);
                    match evaluate_case(&case) {
                        Ok((ratio, _)) => Ok(ratio),
                        Err(Verdict::Fail { sig, msg }) => Err(Failure { sig, msg, bytes: b.to_vec(), extra: json!({"found_by": "targeted search"}) }),
                        Err(_) => Ok(0.0),
                    }
                };
                let mut best_score = match score(&best) {
                    Ok(x) => x,
                    Err(f) => {
                        fails.lock().unwrap().push(f);
                        return;
                    }
                };
                for _ in 0..steps {
                    let mut cand = best.clone();
                    let nmut = 1 + (next() % 3) as usize;
                    for _ in 0..nmut {
                        let pos = (next() % len as u64) as usize;
                        cand[pos] = next() as u8;
                    }
                    cand[3] = 0;
                    match score(&cand) {
                        Ok(sc) => {
                            if sc >= best_score {
                                best_score = sc;
                                best = cand;
                            }
                        }
                        Err(f) => {
                            fails.lock().unwrap().push(f);
                            return;
                        }
                    }
                }
                results.lock().unwrap().push((best_score, best));
            });
        }
    });
    failures.extend(fails.into_inner().unwrap());
    let mut res = results.into_inner().unwrap();
    res.sort_by(|a, b| b.0.partial_cmp(&a.0).unwrap());
    stats.evaluations += (starts * (steps + 1)) as u64;
    stats.extra.insert(
        "targeted_search".into(),
        json!({"starts": starts, "steps_each": steps, "max_ratio_true_regret_over_bound": res.first().map(|r| r.0), "top_ratios": res.iter().take(5).map(|r| r.0).collect::<Vec<_>>()}),
    );
    if let Some((ratio, bytes)) = res.first() {
        stats.extra_samples.push(json!({"tightest_case_found": describe(bytes), "ratio": ratio}));
    }
    failures
}

pub fn prop() -> Prop {
    Prop {
        id: "C02",
        check,
        describe,
        rule: "generated games (all families) x T in 1..200 (80 % <= 40; on games of <= 40 nodes one case in eight 1000..10000) x {1, 2..16 threads} x vanilla parameters, plus a second run with a threshold from {NaN, -1, +inf, a bound value b_t of the run, b_t(1 +- 1e-12), 1.5 b_t}; oracle: the returned total bound >= the true total regret of the returned profile (independent best-response oracle) - 1e-9 scale, per-player bounds finite and >= 0, total = max, and a run that stops below r has true regret < r; followed by a hill-climbing search over the input bytes maximising true regret / bound (its maximum is reported). Non-trivial = true regret > 0 and T >= 2; distinct by (tree, T, threads).",
        max_len: 700,
        cases_quick: 40_000,
        cases_thorough: 600_000,
        assumptions: &["the per-player comparison bound_i >= regret_i is not implied by the theorem and is not asserted; only totals are compared"],
        post: Some(targeted),
        watchdog_s: 120,
        hang_is_violation: false,
        shrink_iters: 400,
    }
}
