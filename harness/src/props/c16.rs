//! C16 — the options and input formats of the program mean what the help text says
use super::c03::preset;
use super::c15::{run_case_cli, PRESET_FLAGS};
use super::common::*;
use super::solvecmp::*;
use crate::cli::{self, EfgOpts};
use crate::gen::GenCfg;
use crate::glue::{self, Decision};
use crate::oracle;
use crate::refcfr::{Method, Params, TieRule};
use crate::runner::{Ctx, Prop, Verdict};
use crate::stream::hash_bytes;
use crate::tree::{Info, Profile, T};
use cfr::SolveMethod;
use serde_json::{json, Value};
use std::collections::BTreeMap;

pub struct Case {
    pub built: Built,
    pub json_text: String,
    pub efg_text: String,
    pub efg_names: [BTreeMap<String, String>; 2],
    pub constant: f64,
    pub preset: usize,
    pub iters: u64,
    pub unlimited: bool,
    pub max_regret: f64,
    pub clip: f64,
    pub parallel: usize,
    pub sampled_flag: bool,
    pub route_picks: Vec<usize>,
}

fn has_chance(tree: &T) -> bool {
    let mut found = false;
    tree.walk(&mut |n| {
        if let T::Chance(_, o) = n {
            if o.len() >= 2 {
                found = true;
            }
        }
    });
    found
}

/// the part of a game that one player decides alone: every decision node of the other player is
/// replaced by the subtree of its first action; names get a prefix so that two such parts can
/// stand side by side
fn solo(t: &T, keep: usize, prefix: &str) -> T {
    match t {
        T::Term(x) => T::Term(*x),
        T::Chance(l, outs) => T::Chance(
            l.as_ref().map(|l| format!("{}{}", prefix, l)),
            outs.iter().map(|(w, c)| (*w, solo(c, keep, prefix))).collect(),
        ),
        T::Player(p, name, acts) => {
            if *p == keep {
                T::Player(*p, format!("{}{}", prefix, name), acts.iter().map(|(a, c)| (a.clone(), solo(c, keep, prefix))).collect())
            } else {
                match acts.first() {
                    Some((_, c)) => solo(c, keep, prefix),
                    None => T::Term(0.0),
                }
            }
        }
    }
}

pub fn decode(bytes: &[u8]) -> Case {
    let (mut s, mut gs) = crate::stream::split(bytes, 300);
    let mut cfg = GenCfg::small();
    cfg.rational_weights = true;
    cfg.dyadic = true;
    if s.chance(32) {
        cfg.max_nodes = 100;
        cfg.max_depth = 7;
    }
    // one case in six is a decoupled game: a chance move decides which of the two players gets to
    // play a game of their own. Pruning one player's part leaves the other player's regret where it
    // was, so the two regrets the clip rule compares are often exactly equal
    let decoupled = s.chance(43);
    let mut g = crate::gen::gen_game(&mut gs, &cfg);
    if decoupled {
        let g2 = crate::gen::gen_game(&mut gs, &cfg);
        let (w1, w2) = [(1.0, 1.0), (1.0, 3.0), (3.0, 1.0), (1.0, 7.0), (5.0, 3.0)][s.below(5)];
        let first = s.below(2);
        g.tree = T::Chance(None, vec![(w1, solo(&g.tree, first, "a")), (w2, solo(&g2.tree, 1 - first, "b"))]);
        g.family = "decoupled";
    }
    let mut tree = g.tree;
    if s.chance(48) {
        cli::fancy_names(&mut s, &mut tree);
    }
    let tree = cli::sorted(&tree);
    let info = Info::of(&tree);
    let constant = [0.0, 0.0, 1.0, -3.0, 10.0, 2.5][s.below(6)];
    let opts = EfgOpts {
        unit: 0.0, constant,
        interior: s.bool(),
        share_outcomes: s.bool(),
        unnamed_fraction: 0,
        // C16 compares the two readers' solutions with each other and with the library call
        // bit for bit or within 1e-9, which presupposes that both readers list the outcomes
        // of a chance node in the same order (label order); repeated labels would order them
        // by probability instead and change the order of summation
        free_chance_labels: false,
    };
    let efg = cli::to_efg_text(&tree, &opts, &mut s);
    let json_text = cli::to_json_text(&tree, &mut s);
    let preset = s.below(5);
    let d = oracle::payoff_range(&tree);
    let n = info.num_multi().max(1) as f64;
    let unlimited = preset == 0 && d > 0.0 && s.chance(40);
    let iters = if unlimited {
        0
    } else {
        match s.weighted(&[4, 3, 1]) {
            0 => 1 + s.below(10) as u64,
            1 => 10 + s.below(90) as u64,
            _ => 100 + s.below(201) as u64,
        }
    };
    let max_regret = if unlimited {
        0.2 * d * n
    } else if s.chance(64) {
        0.3 * d * n
    } else {
        0.0
    };
    let clip = [0.0, 0.0, 1e-3, 0.1, 0.3, 0.5, 0.7][s.below(7)];
    let parallel = if s.chance(32) { [0usize, 2, 4][s.below(3)] } else { 1 };
    let sampled_flag = !has_chance(&tree) && s.chance(48);
    let nroutes = 2 + s.below(2);
    let route_picks = (0..nroutes).map(|_| s.below(14)).collect();
    Case {
        built: Built { tree, family: g.family, info },
        json_text,
        efg_text: efg.text,
        efg_names: efg.printed,
        constant,
        preset,
        iters,
        unlimited,
        max_regret,
        clip,
        parallel,
        sampled_flag,
        route_picks,
    }
}

fn printed_close(a: &Profile, b: &Profile, tol: f64) -> Result<(), String> {
    let (d, at) = max_diff(a, b);
    if d > tol {
        Err(format!("differ by {} at {}", d, at))
    } else {
        Ok(())
    }
}

pub fn check(bytes: &[u8], _ctx: &Ctx) -> Verdict {
    let case = decode(bytes);
    let info = &case.built.info;
    // known finding F17 (reported by C15): the JSON reader refuses documents nested deeper than
    // 128 objects; this check needs both encodings of the game
    if cli::json_nesting(&case.built.tree) > 120 {
        return Verdict::Discard("json-nesting-beyond-the-parser-limit-(known-finding-F17)");
    }
    let game = match build_valid("C16", &case.built.tree) {
        Ok(g) => g,
        Err(v) => return v,
    };
    let mut args: Vec<String> = vec![
        "-m".into(),
        if case.sampled_flag { "sampled".into() } else { "full".into() },
        "-d".into(),
        PRESET_FLAGS[case.preset].into(),
        "-t".into(),
        case.iters.to_string(),
        "-p".into(),
        case.parallel.to_string(),
    ];
    if case.max_regret != 0.0 {
        args.push("-r".into());
        args.push(format!("{}", case.max_regret));
    }
    if case.clip != 0.0 {
        args.push("-c".into());
        args.push(format!("{}", case.clip));
    }
    // the library's answer for the parameters the option values denote
    let lib_iters = if case.iters == 0 { u64::MAX } else { case.iters };
    let tol;
    let mut labels = vec![PRESET_FLAGS[case.preset]];
    if case.parallel == 1 {
        tol = 1e-9;
    } else {
        // several threads: rounding differs, compare only well-conditioned runs
        let built_ref = &case.built;
        let prep = match prepare("C16", built_ref, &game) {
            Ok(p) => p,
            Err(v) => return v,
        };
        let params = [Params::VANILLA, Params::LCFR, Params::CFR_PLUS, Params::DCFR, Params::DCFR_PRUNE][case.preset];
        if case.unlimited || case.max_regret != 0.0 {
            return Verdict::Discard("parallel-with-threshold-not-compared");
        }
        match reference_guard(&prep, Method::Full, params, case.iters, &Decision::First, 0, false, TieRule::LastMaxFirstMin) {
            Ok(g) if g.t_eff == case.iters => (),
            _ => return Verdict::Discard("parallel-run-not-well-conditioned"),
        }
        tol = 1e-6;
        labels.push("parallel");
    }
    // what the library returns for the game each reader produces: the JSON reader passes the
    // payoffs through, the Gambit reader subtracts half the constant sum
    struct Answer {
        unpruned: Profile,
        pruned: Profile,
        r_un: f64,
        r_pr: f64,
        /// the same two regrets as the library computes them (what the program compares)
        lib_r_un: f64,
        lib_r_pr: f64,
    }
    let d = oracle::payoff_range(&case.built.tree);
    let margin = 1e-9 * d.max(1.0);
    let answer = |shift: f64| -> Result<Answer, Verdict> {
        let mut tree = case.built.tree.clone();
        tree.map_payoffs(&|p| p - shift);
        let g = if shift == 0.0 { None } else { Some(build_valid("C16", &tree)?) };
        let g = g.as_ref().unwrap_or(&game);
        let (strats, _) = g
            .solve(SolveMethod::Full, lib_iters, case.max_regret, 1, Some(preset(case.preset)))
            .map_err(|e| Verdict::fail("harness/solve-error", format!("{:?}", e)))?;
        let unpruned = named_valid(info, &glue::read_named(&strats)).map_err(|m| Verdict::fail("harness/library-result-invalid", m))?;
        let mut pruned_s = strats.clone();
        pruned_s.truncate(case.clip);
        let pruned = named_valid(info, &glue::read_named(&pruned_s)).map_err(|m| Verdict::fail("C16/pruned-profile-invalid", m))?;
        let reg = |p: &Profile| oracle::evaluate(&case.built.tree, info, p, 100_000).map(|e| f64::max(e.regret[0], e.regret[1]));
        match (reg(&unpruned), reg(&pruned)) {
            (Ok(r_un), Ok(r_pr)) => Ok(Answer {
                unpruned,
                pruned,
                r_un,
                r_pr,
                lib_r_un: strats.get_info().regret(),
                lib_r_pr: pruned_s.get_info().regret(),
            }),
            _ => Err(Verdict::fail("harness/oracles-disagree", "while evaluating the clip rule")),
        }
    };
    let ans_json = match answer(0.0) {
        Ok(a) => a,
        Err(v) => return v,
    };
    let ans_efg = if case.constant == 0.0 {
        None
    } else {
        match answer(case.constant / 2.0) {
            Ok(a) => Some(a),
            Err(v) => return v,
        }
    };
    let (r_un, r_pr) = (ans_json.r_un, ans_json.r_pr);
    // routes
    let mut first_printed: Option<(String, Profile, cli::Printed)> = None;
    let mut formats_seen = std::collections::BTreeSet::new();
    for pick in case.route_picks.iter() {
        // (format, via_stdin, ext, explicit flag, to_file)
        let (efg, via_stdin, ext, explicit, to_file): (bool, bool, &str, bool, bool) = match pick {
            0 => (false, false, "json", false, false),
            1 => (true, false, "efg", false, false),
            2 => (false, false, "txt", true, false),
            3 => (true, false, "txt", true, true),
            4 => (false, true, "json", true, false),
            5 => (true, true, "efg", true, false),
            6 => (false, true, "json", false, true),  // auto detection from content
            7 => (true, true, "efg", false, false),   // auto detection from content
            8 => (false, false, "dat", false, false), // auto detection: unknown extension, then content
            9 => (true, false, "game", false, true),
            10 => (false, false, "json", true, true),
            11 => (true, false, "efg", true, false),
            // an explicit format decides, whatever the extension says
            12 => (false, false, "efg", true, false),
            _ => (true, false, "json", true, true),
        };
        let mut a = args.clone();
        if explicit {
            a.push("--input-format".into());
            a.push(if efg { "gambit".into() } else { "json".into() });
        }
        let text = if efg { &case.efg_text } else { &case.json_text };
        let names = if efg { case.efg_names.clone() } else { cli::identity_names(info) };
        let route = format!("{} via {} .{}{}{}", if efg { "gambit" } else { "json" }, if via_stdin { "stdin" } else { "file" }, ext, if explicit { " explicit" } else { " auto" }, if to_file { " -o" } else { "" });
        let fin = match run_case_cli(text, &a, via_stdin, to_file, ext) {
            Ok(f) => f,
            Err((sig, msg)) => {
                if sig == "timeout" || sig == "harness-io" {
                    return Verdict::fail(format!("harness/{}", sig), msg);
                }
                return Verdict::fail(format!("C16/{}", sig), format!("route {}: {}", route, msg));
            }
        };
        let prof = match cli::printed_profile(info, &names, &fin.printed) {
            Ok(p) => p,
            Err(m) => return Verdict::fail("C16/printed-strategy-invalid", format!("route {}: {}", route, m)),
        };
        // equals the library's answer (pruned or not, by the clip rule)
        let ans = if efg { ans_efg.as_ref().unwrap_or(&ans_json) } else { &ans_json };
        let (unpruned, pruned) = (&ans.unpruned, &ans.pruned);
        let accept: Vec<(&Profile, &'static str)> = if ans.r_pr < ans.r_un - margin {
            vec![(pruned, "pruned")]
        } else if ans.r_pr > ans.r_un + margin {
            vec![(unpruned, "unpruned")]
        } else {
            vec![(pruned, "pruned"), (unpruned, "unpruned")]
        };
        // inside the margin the independent evaluation cannot say which regret is lower; there
        // the program's own comparison decides, and the harness can repeat it: with one thread
        // its library call is the very computation the program runs. It is used only when the
        // printed profile and the printed regret are bit-for-bit those of the harness (so the two
        // builds demonstrably agree on this case) and the two candidates differ visibly
        if accept.len() == 2 && case.parallel == 1 && !case.sampled_flag && ans.lib_r_un.is_finite() && ans.lib_r_pr.is_finite() && max_diff(unpruned, pruned).0 > 1e-6 {
            let expect_pruned = ans.lib_r_pr < ans.lib_r_un;
            let (want, other, lib_r, name) = if expect_pruned { (pruned, unpruned, ans.lib_r_un, "unpruned") } else { (unpruned, pruned, ans.lib_r_pr, "pruned") };
            labels.push(if ans.lib_r_pr == ans.lib_r_un { "clip-exact-tie" } else { "clip-within-margin" });
            if max_diff(other, &prof).0 == 0.0 && max_diff(want, &prof).0 > 1e-6 && fin.printed.regret.to_bits() == lib_r.to_bits() {
                return Verdict::fail(
                    if ans.lib_r_pr == ans.lib_r_un { "C16/clip-rule/tie" } else { "C16/clip-rule/within-margin" },
                    format!(
                        "route {}; args {:?}: the {} profile is printed although the regrets the program compares are unpruned {:e} and pruned {:e} (the pruned profile is to be printed exactly when its regret is strictly lower)",
                        route, a, name, ans.lib_r_un, ans.lib_r_pr
                    ),
                );
            }
        }
        let mut ok = false;
        let mut why = String::new();
        for (cand, name) in accept.iter() {
            match printed_close(cand, &prof, tol) {
                Ok(()) => {
                    ok = true;
                    labels.push(name);
                    break;
                }
                Err(m) => why = format!("{} (library {} profile first)", m, name),
            }
        }
        if !ok {
            let which = if accept.len() == 1 { accept[0].1 } else { "either" };
            // distinguish a clip-rule failure from a parameter failure
            let other: &Profile = if which == "pruned" { unpruned } else { pruned };
            let sig = if accept.len() == 1 && printed_close(other, &prof, tol).is_ok() {
                "C16/clip-rule"
            } else {
                "C16/differs-from-library"
            };
            return Verdict::fail(
                sig,
                format!(
                    "route {}; args {:?}: printed strategies are not the library's {} result for these parameters: {} (regret unpruned {}, pruned {})",
                    route, a, which, why, ans.r_un, ans.r_pr
                ),
            );
        }
        formats_seen.insert(efg);
        match &first_printed {
            None => first_printed = Some((route.clone(), prof, fin.printed.clone())),
            Some((r0, _, _)) if case.constant != 0.0 && r0.starts_with("gambit") != efg => (),
            Some((r0, p0, pr0)) => {
                if let Err(m) = printed_close(p0, &prof, if case.parallel == 1 { 1e-12 } else { tol }) {
                    return Verdict::fail("C16/routes-differ", format!("route {} and route {} print different strategies: {}", r0, route, m));
                }
                if case.parallel == 1 && !efg && pr0.regret != fin.printed.regret && !r0.starts_with("gambit") {
                    return Verdict::fail("C16/routes-differ", format!("route {} and route {} print different regrets", r0, route));
                }
            }
        }
    }
    if formats_seen.len() == 2 {
        labels.push("json-and-gambit");
    }
    if case.unlimited {
        labels.push("unlimited-iterations");
    }
    if case.sampled_flag {
        labels.push("sampled-without-chance-nodes");
    }
    if case.clip != 0.0 && (r_pr - r_un).abs() > margin {
        labels.push("clip-decides");
    }
    // non-trivial: the five presets give pairwise different answers here, so that a mis-wired
    // preset would be visible
    let mut results: Vec<Profile> = Vec::new();
    let cap = if case.iters == 0 { 50 } else { case.iters };
    for i in 0..5 {
        if let Ok((s, _)) = game.solve(SolveMethod::Full, cap, 0.0, 1, Some(preset(i))) {
            if let Ok(p) = glue::to_profile(info, &glue::read_named(&s)) {
                results.push(p);
            }
        }
    }
    let mut distinct = results.len() == 5;
    for i in 0..results.len() {
        for j in 0..i {
            if max_diff(&results[i], &results[j]).0 <= 1e-6 {
                distinct = false;
            }
        }
    }
    if distinct {
        labels.push("presets-pairwise-distinct");
    }
    Verdict::Pass {
        nontrivial: if distinct { Some(hash_bytes(format!("{}|{:?}|{:?}", case.json_text, args, case.route_picks).as_bytes())) } else { None },
        labels,
    }
}

pub fn describe(bytes: &[u8]) -> Value {
    let c = decode(bytes);
    json!({"json_file": c.json_text.chars().take(1500).collect::<String>(), "gambit_file": c.efg_text.chars().take(1500).collect::<String>(),
           "preset": PRESET_FLAGS[c.preset], "iterations": c.iters, "max_regret": c.max_regret, "clip": c.clip, "parallel": c.parallel, "routes": c.route_picks})
}

pub fn prop() -> Prop {
    Prop {
        id: "C16",
        check,
        describe,
        rule: "generated games with dyadic payoffs and probabilities (every derived number exact), each written as JSON and as Gambit (constant c, interior payoffs, shared outcomes) x -d x -t (incl. -t 0 with -r > 0 and vanilla) x -r x -c x -p (mostly 1) x 2-3 routes from 14 combinations of {.json,.efg,.txt,unknown extension} x {file, stdin} x {explicit --input-format (also with the other format's extension), auto} x {stdout, -o}; -m full (and -m sampled on chance-free games, where it is deterministic); oracle: the harness builds the same game through its own IntoGameNode (actions in name order), calls Game::solve(Full, ..) with the parameters the option values denote, applies truncate, and requires the printed strategies to equal that profile within 1e-9 (pruned exactly when an independent evaluation says its regret is lower by more than 1e-9 D; inside that margin the library's own two regrets decide, exact ties included, whenever the printed profile and regret are bit-for-bit the harness's, and either profile is accepted otherwise); one case in six is a decoupled game (a chance move hands the game to one player or the other), where exact ties of the two regrets are common; all routes must print the same strategies. Non-trivial = the five presets give pairwise different library results on this game and budget (a mis-wired option would be visible); distinct by (file, arguments, routes).",
        max_len: 1000,
        cases_quick: 40_000,
        cases_thorough: 500_000,
        assumptions: &["the harness and the binary are two builds of the same library source; the comparison tolerates 1e-9", "extension/content mismatches under auto detection are not generated"],
        post: None,
        watchdog_s: 180,
        hang_is_violation: false,
        shrink_iters: 500,
    }
}
