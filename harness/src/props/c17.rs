//! C17 — the program rejects malformed or unsupported inputs instead of solving them
use super::c11;
use super::c15::run_case_cli;
use super::common::*;
use crate::cli::{self, EfgOpts};
use crate::gen::GenCfg;
use crate::oracle;
use crate::runner::{Ctx, Prop, Verdict};
use crate::stream::{hash_bytes, Stream};
use crate::tree::{Info, T};
use crate::validate::{self, Contract};
use serde_json::{json, Value};

#[derive(Clone, Debug, PartialEq)]
pub enum Expect {
    /// must be rejected; stderr must contain one of the keywords
    Reject(&'static str, Vec<&'static str>),
    /// control: must succeed
    Accept(&'static str),
}

pub struct Case {
    pub text: String,
    pub efg: bool,
    pub expect: Expect,
    pub explicit_format: bool,
    pub via_stdin: bool,
    pub ext: &'static str,
    pub to_file: bool,
    pub built: Option<(Built, [std::collections::BTreeMap<String, String>; 2])>,
    pub not_first_node: bool,
    pub note: String,
    /// the valid file the corruption started from, to be offered under the *other* format's name
    pub probe: Option<Probe>,
}

pub struct Probe {
    pub text: String,
    pub via_stdin: bool,
    pub ext: &'static str,
}

const KW_JSON: [&str; 3] = ["json", "auto-error", "known format"];
const KW_GAMBIT: [&str; 3] = ["gambit", "auto-error", "known format"];
const KW_GAME: [&str; 2] = ["game-error", "compact game"];

fn gen_tree(s: &mut Stream, gs: &mut Stream, dyadic: bool) -> (T, &'static str) {
    let mut cfg = GenCfg::small();
    cfg.rational_weights = true;
    cfg.dyadic = dyadic;
    if s.chance(24) {
        cfg.max_nodes = 100;
    }
    let g = crate::gen::gen_game(gs, &cfg);
    (g.tree, g.family)
}

/// paths (as JSON pointers) of all nodes of the given kind in a DSL value
fn json_nodes(val: &Value, kind: &str, path: String, out: &mut Vec<String>) {
    if let Some(obj) = val.as_object() {
        if obj.contains_key(kind) {
            out.push(path.clone());
        }
        if let Some(ch) = obj.get("chance") {
            if let Some(outs) = ch.get("outcomes").and_then(|o| o.as_object()) {
                for (k, o) in outs {
                    if let Some(st) = o.get("state") {
                        json_nodes(st, kind, format!("{}/chance/outcomes/{}/state", path, esc(k)), out);
                    }
                }
            }
        }
        if let Some(pl) = obj.get("player") {
            if let Some(acts) = pl.get("actions").and_then(|o| o.as_object()) {
                for (k, st) in acts {
                    json_nodes(st, kind, format!("{}/player/actions/{}", path, esc(k)), out);
                }
            }
        }
    }
}

fn esc(key: &str) -> String {
    key.replace('~', "~0").replace('/', "~1")
}

fn json_fault(s: &mut Stream, text: &str) -> Option<(String, Expect, bool)> {
    let mut val: Value = serde_json::from_str(text).ok()?;
    let kind = s.below(16);
    let mut pick = |val: &Value, what: &str, s: &mut Stream| -> Option<String> {
        let mut out = Vec::new();
        json_nodes(val, what, String::new(), &mut out);
        if out.is_empty() {
            None
        } else {
            Some(out[s.below(out.len())].clone())
        }
    };
    let reject_json = |name: &'static str| Expect::Reject(name, KW_JSON.to_vec());
    let reject_game = |name: &'static str| Expect::Reject(name, KW_GAME.to_vec());
    match kind {
        0 => {
            // truncation strictly inside the text
            let bytes = text.as_bytes();
            if bytes.len() < 3 {
                return None;
            }
            let mut cut = 1 + s.below((bytes.len() - 2).min(65535));
            while !text.is_char_boundary(cut) {
                cut -= 1;
            }
            Some((text[..cut].to_string(), reject_json("json-truncated"), cut > 20))
        }
        1 => {
            // remove one closing brace or one quote
            let target = if s.bool() { '}' } else { '"' };
            let positions: Vec<usize> = text.char_indices().filter(|(_, c)| *c == target).map(|(i, _)| i).collect();
            if positions.is_empty() {
                return None;
            }
            let at = positions[s.below(positions.len().min(65535))];
            let mut t = text.to_string();
            t.remove(at);
            Some((t, reject_json("json-unbalanced"), at > 20))
        }
        2 => Some((format!("{}{}", text, [" x", " {}", " ]", ","][s.below(4)]), reject_json("json-trailing-garbage"), true)),
        3 | 4 | 5 => {
            let path = pick(&val, "chance", s)?;
            let node = val.pointer_mut(&format!("{}/chance", path))?;
            let outs = node.get_mut("outcomes")?.as_object_mut()?;
            let keys: Vec<String> = outs.keys().cloned().collect();
            let k = &keys[s.below(keys.len())];
            let not_first = !path.is_empty();
            match kind {
                3 => {
                    outs.get_mut(k)?.as_object_mut()?.remove(if s.bool() { "prob" } else { "state" });
                    Some((val.to_string(), reject_json("json-missing-field-in-outcome"), not_first))
                }
                4 => {
                    let which = s.below(5);
                    if which >= 3 {
                        // every weight of the node negative (their total is negative too, so the
                        // normalised values would be positive again)
                        let f = if which == 3 { -1.0 } else { -2.0 };
                        for key in keys.iter() {
                            let o = outs.get_mut(key)?.as_object_mut()?;
                            let w = o.get("prob")?.as_f64()?;
                            o.insert("prob".into(), json!(w * f));
                        }
                        return Some((val.to_string(), reject_game("json-all-probabilities-negative"), not_first));
                    }
                    let bad = [json!(0.0), json!(-1.0), json!(-0.0)][which].clone();
                    outs.get_mut(k)?.as_object_mut()?.insert("prob".into(), bad);
                    Some((val.to_string(), reject_game("json-non-positive-probability"), not_first))
                }
                _ => {
                    let bad = [json!("0.5"), json!(true), json!([0.5]), Value::Null][s.below(4)].clone();
                    outs.get_mut(k)?.as_object_mut()?.insert("prob".into(), bad);
                    Some((val.to_string(), reject_json("json-wrong-type-prob"), not_first))
                }
            }
        }
        6 => {
            let path = pick(&val, "chance", s)?;
            let node = val.pointer_mut(&format!("{}/chance", path))?.as_object_mut()?;
            if s.bool() {
                node.remove("outcomes");
                Some((val.to_string(), reject_json("json-missing-outcomes"), !path.is_empty()))
            } else {
                node.insert("outcomes".into(), json!({}));
                Some((val.to_string(), reject_game("json-empty-outcomes"), !path.is_empty()))
            }
        }
        7 | 8 | 9 => {
            let path = pick(&val, "player", s)?;
            let node = val.pointer_mut(&format!("{}/player", path))?.as_object_mut()?;
            let not_first = !path.is_empty();
            match kind {
                7 => {
                    node.remove(["player_one", "infoset", "actions"][s.below(3)]);
                    Some((val.to_string(), reject_json("json-missing-field-in-player"), not_first))
                }
                8 => {
                    match s.below(3) {
                        0 => node.insert("player_one".into(), json!(1)),
                        1 => node.insert("infoset".into(), json!(7)),
                        _ => node.insert("actions".into(), json!([])),
                    };
                    Some((val.to_string(), reject_json("json-wrong-type-in-player"), not_first))
                }
                _ => {
                    node.insert("actions".into(), json!({}));
                    Some((val.to_string(), reject_game("json-empty-actions"), not_first))
                }
            }
        }
        10 | 11 => {
            let path = pick(&val, "terminal", s)?;
            let node = val.pointer_mut(if path.is_empty() { "" } else { &path })?;
            let not_first = !path.is_empty();
            if kind == 10 {
                *node = [json!({"terminall": 0.0}), json!({"terminal": "1"}), json!({"terminal": null}), json!({}), json!(3.0)][s.below(5)].clone();
                Some((val.to_string(), reject_json("json-bad-terminal"), not_first))
            } else {
                *node = json!({"terminal": 0.0, "chance": {"outcomes": {"a": {"prob": 1.0, "state": {"terminal": 0.0}}}}});
                Some((val.to_string(), reject_json("json-two-tags"), not_first))
            }
        }
        12 => {
            // a payoff that is not a finite double
            let t = text.replacen("\"terminal\": ", "\"terminal\": 1e999", 1);
            if t == text {
                return None;
            }
            // the literal now reads 1e999<old number>; make it syntactically one number
            let t = text.replacen("{\"terminal\": ", "{\"terminal\": 1e999, \"x\": ", 1);
            let _ = t;
            let mut v2 = val.clone();
            let path = pick(&v2, "terminal", s)?;
            let marker = json!({"terminal": "@@HUGE@@"});
            *v2.pointer_mut(if path.is_empty() { "" } else { &path })? = marker;
            let t = v2.to_string().replace("\"@@HUGE@@\"", ["1e999", "-1e999", "NaN", "Infinity"][s.below(4)]);
            Some((t, reject_json("json-non-finite-payoff"), !path.is_empty()))
        }
        _ => None,
    }
}

fn efg_fault(s: &mut Stream, efg: &cli::EfgText, tree: &T, constant: f64) -> Option<(String, Expect, bool)> {
    let lines = &efg.lines;
    let rebuild = |header: &str, lines: &[String]| format!("{}\n{}\n", header, lines.join("\n"));
    let texts: Vec<String> = lines.iter().map(|l| l.text.clone()).collect();
    let reject_gambit = |name: &'static str| Expect::Reject(name, KW_GAMBIT.to_vec());
    let pick_line = |s: &mut Stream, kind: char| -> Option<usize> {
        let cand: Vec<usize> = lines.iter().enumerate().filter(|(_, l)| l.kind == kind).map(|(i, _)| i).collect();
        if cand.is_empty() {
            None
        } else {
            Some(cand[s.below(cand.len())])
        }
    };
    match s.below(17).min(13) {
        13 => {
            // Edit one payoff of one outcome, wherever its payoff list is written (a leaf, an
            // interior player or chance node, possibly an outcome other nodes refer to by number),
            // and work out from the file's own structure whether the result is still constant-sum
            // by the documented rule: rejected iff 1000 * range of the half sums > range of player
            // one's payoffs. Edits within 1 % of that boundary are not generated.
            let cand: Vec<usize> = lines
                .iter()
                .enumerate()
                .filter(|(_, l)| l.has_pays && l.outcome != 0 && lines.iter().filter(|m| m.outcome == l.outcome && m.has_pays).count() == 1)
                .map(|(i, _)| i)
                .collect();
            if cand.is_empty() {
                return None;
            }
            let i = cand[s.below(cand.len().min(256))];
            let num = lines[i].outcome;
            let base = cli::efg_leaf_sums(lines, &efg.outcomes)?;
            let d = base.iter().map(|x| x.0).fold(f64::NEG_INFINITY, f64::max) - base.iter().map(|x| x.0).fold(f64::INFINITY, f64::min);
            if !(d > 0.0) {
                return None;
            }
            let factor = [1.02, 2.0, 100.0, 0.5, 0.98, 7.0][s.below(6)];
            let delta = factor * d / 500.0 * if s.bool() { 1.0 } else { -1.0 };
            let l = &lines[i].text;
            let open = l.rfind('{')?;
            let inner = l[open + 1..l.rfind('}')?].replace(',', " ");
            let nums: Vec<&str> = inner.split_whitespace().collect();
            if nums.len() != 2 {
                return None;
            }
            let second = parse_efg_num(nums[1])? + delta;
            let mut table = efg.outcomes.clone();
            let old = *table.get(&num)?;
            table.insert(num, (old.0, second));
            let sums = cli::efg_leaf_sums(lines, &table)?;
            let half: Vec<f64> = sums.iter().map(|(a, b)| a + (b - a) / 2.0).collect();
            let spread = half.iter().copied().fold(f64::NEG_INFINITY, f64::max) - half.iter().copied().fold(f64::INFINITY, f64::min);
            let ratio = spread * 1000.0 / d;
            let expect = if ratio > 1.01 {
                Expect::Reject("gambit-payoff-edit-not-constant-sum", vec!["constant"])
            } else if ratio < 0.99 {
                Expect::Accept("gambit-payoff-edit-within-tolerance")
            } else {
                return None;
            };
            let mut t = texts.clone();
            t[i] = format!("{}{{ {} {} }}", &l[..open], nums[0], second);
            Some((rebuild(&efg.header, &t), expect, i > 0))
        }
        0 => {
            let text = rebuild(&efg.header, &texts);
            if text.len() < 30 {
                return None;
            }
            let mut cut = 5 + s.below((text.len() - 8).min(65535));
            while !text.is_char_boundary(cut) {
                cut -= 1;
            }
            // cut inside the last node so that what remains cannot be a complete game
            let t = text[..cut].trim_end().to_string();
            // a cut that only removes trailing whitespace leaves a valid file
            if t.len() >= text.trim_end().len() {
                return None;
            }
            Some((t, reject_gambit("gambit-truncated"), cut > 60))
        }
        1 => {
            let header = match s.below(4) {
                0 => efg.header.replacen("EFG 2 R", "EFG 3 R", 1),
                1 => efg.header.replacen("EFG 2 R", "NFG 1 R", 1),
                2 => efg.header.replacen("EFG 2 R", "EFG 2", 1),
                _ => efg.header.replacen("{ ", "", 1),
            };
            Some((rebuild(&header, &texts), reject_gambit("gambit-header-damage"), false))
        }
        2 => {
            // three players, consistently: a third name and a third payoff everywhere
            let header = efg.header.replacen("\"two\" }", "\"two\" \"three\" }", 1);
            let t2: Vec<String> = texts
                .iter()
                .map(|l| {
                    // append a third payoff to every payoff list (lists end with " }")
                    if let Some(pos) = l.rfind(" }") {
                        let (head, tail) = l.split_at(pos);
                        if head.contains('{') && (l.starts_with("t ") || head.rfind('{') > head.rfind('}')) && is_payoff_list(l) {
                            return format!("{} 0{}", head, tail);
                        }
                    }
                    l.clone()
                })
                .collect();
            Some((
                rebuild(&header, &t2),
                Expect::Reject("gambit-three-players", vec!["two player", "two-player", "players", "gambit", "auto-error", "known format"]),
                false,
            ))
        }
        3 => {
            let i = pick_line(s, 'p')?;
            let l = &lines[i];
            let mut t = texts.clone();
            t[i] = l.text.replacen(&format!("p \"\" {} ", l.player + 1), "p \"\" 3 ", 1);
            Some((rebuild(&efg.header, &t), reject_gambit("gambit-player-number-three"), i > 0))
        }
        4 => {
            // chance probabilities that do not sum to one
            let i = pick_line(s, 'c')?;
            let mut t = texts.clone();
            let l = &lines[i].text;
            let open = l.find("{ \"o0\" ")? + 7;
            let end = open + l[open..].find(' ')?;
            t[i] = format!("{}{}{}", &l[..open], ["1/3", "0.123", "2"][s.below(3)], &l[end..]);
            if t[i] == *l {
                return None;
            }
            // a single-outcome node with probability 2, or 1/3 + rest: never one unless it was 1/3
            Some((rebuild(&efg.header, &t), reject_gambit("gambit-chance-not-a-distribution"), i > 0))
        }
        5 => {
            let i = pick_line(s, 't')?;
            let mut t = texts.clone();
            let l = &lines[i].text;
            let pos = l.rfind(" }")?;
            t[i] = format!("{} 7{}", &l[..pos], &l[pos..]);
            Some((rebuild(&efg.header, &t), reject_gambit("gambit-three-payoffs"), i > 0))
        }
        6 => {
            // payoffs attached to the null outcome of an interior node
            let i = if s.bool() { pick_line(s, 'p') } else { pick_line(s, 'c') }?;
            let l = &lines[i].text;
            if !l.ends_with(" 0") {
                return None;
            }
            let mut t = texts.clone();
            t[i] = format!("{} {{ 1 -1 }}", l);
            Some((rebuild(&efg.header, &t), reject_gambit("gambit-null-outcome-payoffs"), i > 0))
        }
        7 | 8 => {
            // break (or, as a control, nearly break) the constant sum at one leaf
            let d = oracle::payoff_range(tree);
            if !(d > 0.0) {
                return None;
            }
            let i = pick_line(s, 't')?;
            // only leaves whose outcome is not shared
            let num = lines[i].text.split_whitespace().nth(2)?.to_string();
            if lines.iter().filter(|l| l.kind == 't' && l.text.split_whitespace().nth(2) == Some(num.as_str())).count() != 1 {
                return None;
            }
            if efg.interior_outcome_numbers.iter().any(|n| n.to_string() == num) {
                // an interior node carries this outcome too (and may repeat its payoff list)
                return None;
            }
            let (factor, expect): (f64, Expect) = match s.below(5) {
                0 => (1.01, Expect::Reject("gambit-not-constant-sum-1.01", vec!["constant"])),
                1 => (2.0, Expect::Reject("gambit-not-constant-sum-2", vec!["constant"])),
                2 => (100.0, Expect::Reject("gambit-not-constant-sum-100", vec!["constant"])),
                3 => (0.5, Expect::Accept("gambit-within-constant-sum-tolerance-0.5")),
                _ => (0.99, Expect::Accept("gambit-within-constant-sum-tolerance-0.99")),
            };
            // the half sums then range over delta / 2; the program rejects when 1000 * that > d
            let delta = factor * d / 500.0;
            let l = &lines[i].text;
            let open = l.rfind('{')?;
            let inner = l[open + 1..l.rfind('}')?].replace(',', " ");
            let nums: Vec<&str> = inner.split_whitespace().collect();
            if nums.len() != 2 {
                return None;
            }
            let mut t = texts.clone();
            // second payoff := second payoff + delta, written as an exact sum of rationals is not
            // possible in the grammar, so delta is added to the double value (the margins are 1 %)
            let second = parse_efg_num(nums[1])? + delta;
            t[i] = format!("{}{{ {} {} }}", &l[..open], nums[0], second);
            let _ = constant;
            Some((rebuild(&efg.header, &t), expect, i > 0))
        }
        9 => {
            let i = pick_line(s, 't')?;
            let num = lines[i].text.split_whitespace().nth(2)?.to_string();
            if lines.iter().filter(|l| l.kind == 't' && l.text.split_whitespace().nth(2) == Some(num.as_str())).count() != 1 {
                return None;
            }
            if efg.interior_outcome_numbers.iter().any(|n| n.to_string() == num) {
                // an interior node carries this outcome too (and may repeat its payoff list)
                return None;
            }
            let mut t = texts.clone();
            let l = &lines[i].text;
            let open = l.rfind('{')?;
            t[i] = format!("{}{{ {} 0 }}", &l[..open], ["1e400", "-1e400", "1e4000"][s.below(3)]);
            Some((
                rebuild(&efg.header, &t),
                Expect::Reject("gambit-non-finite-payoff", vec!["finite", "gambit", "auto-error", "known format"]),
                i > 0,
            ))
        }
        10 | 11 => {
            // two infosets of one player under one name: give every line of infoset B the name of A
            let p = s.below(2);
            let mut nums: Vec<u64> = lines.iter().filter(|l| l.kind == 'p' && l.player == p).map(|l| l.infoset).collect();
            nums.sort();
            nums.dedup();
            if nums.len() < 2 {
                return None;
            }
            let a = nums[s.below(nums.len())];
            let b = nums[s.below(nums.len())];
            if a == b {
                return None;
            }
            // the name of A: its explicit name, or its number string if unnamed
            let a_name = lines
                .iter()
                .find(|l| l.kind == 'p' && l.player == p && l.infoset == a && l.name.is_some())
                .and_then(|l| l.name.clone());
            let clash = match &a_name {
                Some(n) => n.clone(),
                None => a.to_string(),
            };
            let mut t = texts.clone();
            let mut first = usize::MAX;
            for (i, l) in lines.iter().enumerate() {
                if l.kind == 'p' && l.player == p && l.infoset == b {
                    let prefix = format!("p \"\" {} {}", p + 1, b);
                    let rest = &l.text[prefix.len()..];
                    let rest = match &l.name {
                        Some(n) => rest.replacen(&format!(" {}", cli::efg_label(n)), "", 1),
                        None => rest.to_string(),
                    };
                    t[i] = format!("{} {}{}", prefix, cli::efg_label(&clash), rest);
                    first = first.min(i);
                }
            }
            Some((
                rebuild(&efg.header, &t),
                Expect::Reject(
                    if a_name.is_some() { "gambit-two-infosets-one-explicit-name" } else { "gambit-name-equals-number-of-unnamed-infoset" },
                    vec!["infoset", "duplicate", "game-error", "compact game"],
                ),
                first > 0,
            ))
        }
        12 => {
            // a probability with a zero denominator
            let i = pick_line(s, 'c')?;
            let mut t = texts.clone();
            let l = &lines[i].text;
            let open = l.find("{ \"o0\" ")? + 7;
            let end = open + l[open..].find(' ')?;
            t[i] = format!("{}{}{}", &l[..open], ["1/0", "0/0"][s.below(2)], &l[end..]);
            Some((rebuild(&efg.header, &t), reject_gambit("gambit-zero-denominator"), i > 0))
        }
        _ => None,
    }
}

fn is_payoff_list(line: &str) -> bool {
    // the last braces of a t line, or of a p/c line whose outcome is not 0, hold payoffs
    if line.starts_with("t ") {
        return true;
    }
    match (line.rfind('{'), line.rfind('}')) {
        (Some(o), Some(c)) if o < c => {
            let inner = &line[o + 1..c];
            !inner.contains('"')
        }
        _ => false,
    }
}

fn parse_efg_num(text: &str) -> Option<f64> {
    if let Some((a, b)) = text.split_once('/') {
        Some(a.parse::<f64>().ok()? / b.parse::<f64>().ok()?)
    } else {
        text.parse::<f64>().ok()
    }
}

pub fn decode(bytes: &[u8]) -> Option<Case> {
    let (mut s, mut gs) = crate::stream::split(bytes, 300);
    let efg = s.bool();
    let mode = s.weighted(&[5, 3]);
    let (mut tree, _family) = gen_tree(&mut s, &mut gs, efg);
    if !efg && cli::json_nesting(&tree) > 110 {
        // known finding F17 (reported by C15): such a document is refused as a whole, whatever else
        // is wrong with it
        return None;
    }
    let explicit_format = s.bool();
    let via_stdin = s.chance(64);
    let to_file = s.chance(64);
    let ext: &'static str = if explicit_format {
        ["txt", if efg { "efg" } else { "json" }][s.below(2)]
    } else if via_stdin {
        "txt"
    } else {
        // auto: by extension, or unknown extension then content
        [if efg { "efg" } else { "json" }, "dat"][s.below(2)]
    };
    let mut built = None;
    let mut note = String::new();
    let mut valid_text: Option<String> = None;
    let (text, expect, not_first) = if mode == 1 {
        // a contract violation of C11, carried through the file format
        let mut ops = Vec::new();
        for _ in 0..8 {
            let mut trial = tree.clone();
            let op = apply_cli_op(&mut s, &mut trial);
            if op == "none" {
                continue;
            }
            let as_read = cli::sorted(&trial);
            if let (Contract::MustReject(rules), _) = validate::check(&as_read) {
                // duplicate labels cannot be expressed in a JSON map (later key wins)
                if rules.iter().any(|r| *r == validate::Rule::ActionsNotUnique) {
                    continue;
                }
                // a NaN payoff is a syntax matter in both formats
                if rules.iter().any(|r| *r == validate::Rule::NonFinitePayoff) {
                    continue;
                }
                tree = trial;
                ops.push(op);
                break;
            }
        }
        if ops.is_empty() {
            return None;
        }
        let mut kw = KW_GAME.to_vec();
        // JSON has no spelling for NaN or infinite numbers (they are written as null)
        let mut nonfinite = false;
        tree.walk(&mut |n| {
            if let T::Chance(_, outs) = n {
                if outs.iter().any(|(w, _)| !w.is_finite()) {
                    nonfinite = true;
                }
            }
        });
        if nonfinite {
            kw.extend(KW_JSON.iter());
        }
        let text = if efg {
            // the Gambit grammar validates infoset action sets and chance distributions itself
            kw.extend(KW_GAMBIT.iter());
            let opts = EfgOpts { unit: 0.0, constant: 0.0, interior: false, share_outcomes: false, unnamed_fraction: 0, free_chance_labels: false };
            match std::panic::catch_unwind(std::panic::AssertUnwindSafe(|| cli::to_efg_text(&tree, &opts, &mut s))) {
                Ok(t) => t.text,
                Err(_) => return None,
            }
        } else {
            cli::to_json_text(&tree, &mut s)
        };
        note = format!("{:?} on tree {}", ops, tree.brief());
        (text, Expect::Reject("library-contract-violation", kw), true)
    } else if efg {
        // the constant-sum tolerance is relative to player one's payoff range, so the unit in
        // which a file states its payoffs must not matter: powers of two keep every number exact
        let unit = [1.0, 1.0, 1.0, 9.094947017729282e-13, 7.888609052210118e-31, 1073741824.0][s.below(6)];
        tree.map_payoffs(&|p| p * unit);
        let constant = [0.0, 1.0, 10.0][s.below(3)] * unit;
        let opts = EfgOpts {
            unit, constant,
            interior: s.bool(),
            share_outcomes: s.chance(64),
            unnamed_fraction: [0, 96][s.below(2)],
            free_chance_labels: true,
        };
        let out = cli::to_efg_text(&tree, &opts, &mut s);
        valid_text = Some(out.text.clone());
        let (text, expect, nf) = efg_fault(&mut s, &out, &tree, constant)?;
        if let Expect::Accept(_) = expect {
            let info = Info::of(&tree);
            built = Some((Built { tree: tree.clone(), family: "control", info }, out.printed.clone()));
        }
        (text, expect, nf)
    } else {
        // corruptions are placed relative to the document itself, not to whitespace around it
        let text = cli::to_json_text(&tree, &mut s).trim().to_string();
        valid_text = Some(text.clone());
        json_fault(&mut s, &text)?
    };
    // drawn last, so that everything above decodes as it did before the probe existed
    let probe = match valid_text {
        Some(text) if s.chance(40) => Some(Probe {
            text,
            via_stdin: s.chance(64),
            ext: ["txt", "json", "efg", "dat"][s.below(4)],
        }),
        _ => None,
    };
    Some(Case {
        probe,
        text,
        efg,
        expect,
        explicit_format,
        via_stdin,
        ext,
        to_file,
        built,
        not_first_node: not_first,
        note,
    })
}

/// the C11 operators that survive serialisation (no weights that JSON cannot spell)
fn apply_cli_op(s: &mut Stream, tree: &mut T) -> &'static str {
    // reuse C11's operator set through its public decode path is not possible; re-create the
    // relevant ones on the tree
    let mut sub = [0u8; 24];
    for b in sub.iter_mut() {
        *b = s.u8();
    }
    let mut st = Stream::new(&sub);
    c11::apply_op_public(&mut st, tree)
}

pub fn check(bytes: &[u8], _ctx: &Ctx) -> Verdict {
    let case = match decode(bytes) {
        Some(c) => c,
        None => return Verdict::Discard("no-applicable-corruption"),
    };
    let mut args: Vec<String> = vec!["-t".into(), "5".into(), "-p".into(), "1".into()];
    if case.explicit_format {
        args.push("--input-format".into());
        args.push(if case.efg { "gambit".into() } else { "json".into() });
    }
    let mut in_path = None;
    let mut out_path = None;
    if !case.via_stdin {
        let p = cli::tmp_path(case.ext);
        if std::fs::write(&p, &case.text).is_err() {
            return Verdict::fail("harness/io", "cannot write the input file");
        }
        args.push("-i".into());
        args.push(p.display().to_string());
        in_path = Some(p);
    }
    if case.to_file {
        let p = cli::tmp_path("out");
        args.push("-o".into());
        args.push(p.display().to_string());
        out_path = Some(p);
    }
    let fmt = if case.efg { "gambit" } else { "json" };
    let route = format!(
        "{} {} .{} {}",
        fmt,
        if case.via_stdin { "stdin" } else { "file" },
        case.ext,
        if case.explicit_format { "explicit" } else { "auto" }
    );
    let verdict = match &case.expect {
        Expect::Accept(name) => {
            // controls: run through the C15 machinery (player one's numbers only, see DESIGN)
            let res = run_case_cli(&case.text, &args[..if case.explicit_format { 6 } else { 4 }].to_vec(), case.via_stdin, false, case.ext);
            match res {
                Err((sig, msg)) => Verdict::fail(format!("C17/control-rejected/{}", name), format!("{}: {} ({})", route, msg, sig)),
                Ok(fin) => {
                    let (built, names) = case.built.as_ref().unwrap();
                    match cli::printed_profile(&built.info, names, &fin.printed) {
                        Err(m) => Verdict::fail("C17/control-invalid-strategies", m),
                        Ok(prof) => match oracle::evaluate(&built.tree, &built.info, &prof, 100_000) {
                            Err(m) => Verdict::fail("harness/oracles-disagree", m),
                            Ok(eval) => {
                                let tol = 1e-9 * oracle::scale_of(&built.tree).max(10.0);
                                if (fin.printed.util[0] - eval.util).abs() > tol || (fin.printed.regrets[0] - eval.regret[0]).abs() > tol {
                                    Verdict::fail(
                                        "C17/control-unfaithful",
                                        format!("player one: printed utility {} regret {}, evaluated {} and {}", fin.printed.util[0], fin.printed.regrets[0], eval.util, eval.regret[0]),
                                    )
                                } else {
                                    Verdict::Pass {
                                        nontrivial: Some(hash_bytes(case.text.as_bytes())),
                                        labels: vec![name, "control-accepted"],
                                    }
                                }
                            }
                        },
                    }
                }
            }
        }
        Expect::Reject(name, keywords) => {
            let ran = cli::run_cli(&args, if case.via_stdin { Some(&case.text) } else { None });
            let created = out_path.as_ref().map(|p| p.exists()).unwrap_or(false);
            if ran.timed_out {
                Verdict::fail(
                    format!("C17/timeout/{}", name),
                    format!("{}: the program did not finish within 60 s on an input with corruption '{}' | args {:?}", route, name, args),
                )
            } else if ran.code == Some(0) {
                Verdict::fail(
                    format!("C17/accepted/{}", name),
                    format!("{}: exit status 0 for an input with corruption '{}'; stdout starts {:?}", route, name, ran.stdout.chars().take(160).collect::<String>()),
                )
            } else if !ran.stdout.trim().is_empty() {
                Verdict::fail(format!("C17/stdout-not-empty/{}", name), format!("{}: wrote {:?} before failing", route, ran.stdout.chars().take(160).collect::<String>()))
            } else if created {
                Verdict::fail(format!("C17/output-file-created/{}", name), format!("{}: the -o file exists after a failing run", route))
            } else if ran.code.is_none() {
                Verdict::fail(format!("C17/killed-by-signal/{}", name), format!("{}: the program died from a signal; stderr {:?}", route, ran.stderr.chars().take(200).collect::<String>()))
            } else {
                let lower = ran.stderr.to_lowercase();
                if keywords.iter().any(|k| lower.contains(k)) {
                    Verdict::Pass {
                        nontrivial: if case.not_first_node { Some(hash_bytes(case.text.as_bytes())) } else { None },
                        labels: vec![name, fmt, if case.explicit_format { "explicit-format" } else { "auto-format" }],
                    }
                } else {
                    Verdict::fail(
                        format!("C17/diagnostic/{}", name),
                        format!("{}: rejected, but stderr names none of {:?}: {:?}", route, keywords, ran.stderr.lines().take(3).collect::<Vec<_>>()),
                    )
                }
            }
        }
    };
    for p in [&in_path, &out_path].into_iter().flatten() {
        let _ = std::fs::remove_file(p);
    }
    // the valid file of this case, offered under the other format's name: an explicit
    // --input-format selects the reader whatever the extension says, and a valid Gambit file is
    // not a JSON game (nor the reverse)
    let (nontrivial, mut labels, probe) = match (verdict, case.probe.as_ref()) {
        (Verdict::Pass { nontrivial, labels }, Some(p)) => (nontrivial, labels, p),
        (v, _) => return v,
    };
    {
        let named = if case.efg { "json" } else { "gambit" };
        let mut a: Vec<String> = vec!["-t".into(), "5".into(), "-p".into(), "1".into(), "--input-format".into(), named.into()];
        let mut path = None;
        if !probe.via_stdin {
            let p = cli::tmp_path(probe.ext);
            if std::fs::write(&p, &probe.text).is_err() {
                return Verdict::fail("harness/io", "cannot write the input file");
            }
            a.push("-i".into());
            a.push(p.display().to_string());
            path = Some(p);
        }
        let ran = cli::run_cli(&a, if probe.via_stdin { Some(&probe.text) } else { None });
        if let Some(p) = path {
            let _ = std::fs::remove_file(p);
        }
        let route = format!("valid {} file offered as --input-format {} via {}", fmt, named, if probe.via_stdin { "stdin".to_string() } else { format!("a .{} file", probe.ext) });
        let name = "valid-file-of-the-other-format";
        if ran.timed_out {
            return Verdict::fail(format!("C17/timeout/{}", name), format!("{}: the program did not finish within 60 s", route));
        }
        if ran.code == Some(0) {
            return Verdict::fail(format!("C17/accepted/{}", name), format!("{}: exit status 0; stdout starts {:?}", route, ran.stdout.chars().take(160).collect::<String>()));
        }
        if !ran.stdout.trim().is_empty() {
            return Verdict::fail(format!("C17/stdout-not-empty/{}", name), format!("{}: wrote {:?} before failing", route, ran.stdout.chars().take(160).collect::<String>()));
        }
        if ran.code.is_none() {
            return Verdict::fail(format!("C17/killed-by-signal/{}", name), format!("{}: the program died from a signal", route));
        }
        let lower = ran.stderr.to_lowercase();
        let kws: &[&str] = if named == "json" { &KW_JSON } else { &KW_GAMBIT };
        if !kws.iter().any(|k| lower.contains(k)) {
            return Verdict::fail(format!("C17/diagnostic/{}", name), format!("{}: rejected, but stderr names none of {:?}: {:?}", route, kws, ran.stderr.lines().take(3).collect::<Vec<_>>()));
        }
        labels.push("other-format-probe");
        Verdict::Pass { nontrivial, labels }
    }
}

pub fn describe(bytes: &[u8]) -> Value {
    match decode(bytes) {
        None => json!("no applicable corruption"),
        Some(c) => json!({"format": if c.efg { "gambit" } else { "json" }, "expect": format!("{:?}", c.expect), "explicit_format": c.explicit_format, "stdin": c.via_stdin, "extension": c.ext, "note": c.note,
                         "file": c.text.chars().take(1500).collect::<String>()}),
    }
}

pub fn prop() -> Prop {
    Prop {
        id: "C17",
        check,
        describe,
        rule: "a generated valid file plus one semantic corruption whose outcome is known by construction, under explicit and automatic format selection, file and stdin, with and without -o. JSON: truncation, removed brace/quote, trailing garbage, dropped prob/state/player_one/infoset/actions/outcomes, wrong types, unknown or double variant tag, non-finite payoff literal, non-positive probability, empty actions/outcomes. Gambit: truncation, header damage, three players, player number 3, chance probabilities not summing to one, three payoffs, payoffs on the null outcome, a leaf payoff moved beyond the constant-sum tolerance by factors {1.01, 2, 100} (controls at 0.5 and 0.99 must be accepted), one payoff of any outcome (leaf, interior player or chance node, also one that other nodes refer to by number) edited by a multiple of the tolerance with the verdict computed from the file's own structure, 1e400 payoffs, two infosets under one name (explicit, or the number string of an unnamed one). Both: any contract violation operator of C11 carried through the format (incl. every weight of a chance node negative). After a passing case, one time in six, the valid file the corruption started from is offered under the other format's name (explicit --input-format, any of four extensions or stdin): it must be refused with that format's diagnostic. Oracle: exit status != 0, empty stdout, no -o file, stderr naming a keyword of the expected category (loose alternatives; auto-detection may report its own category). Non-trivial = the corruption is not at the first node; distinct by file text.",
        max_len: 900,
        cases_quick: 120_000,
        cases_thorough: 1_200_000,
        assumptions: &[
            "only corruptions whose invalidity follows from the README / DSL are used; byte flips with unknown effect are not",
            "accepted controls are checked for player one's numbers only (within the tolerance the file is not exactly constant-sum)",
        ],
        post: None,
        watchdog_s: 120,
        hang_is_violation: false,
        shrink_iters: 800,
    }
}
