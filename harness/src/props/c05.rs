//! C05 — every solve returns a well-formed strategy profile and never panics
use super::common::*;
use crate::gen::GenCfg;
use crate::glue;
use crate::refcfr::{Method, Params};
use crate::runner::{Ctx, Prop, Verdict};
use crate::stream::{hash_bytes, Stream};
use cfr::{PlayerNum, RegretParams, SolveError};
use serde_json::{json, Value};
use std::panic::{catch_unwind, AssertUnwindSafe};

pub fn pick_exponent(s: &mut Stream) -> f64 {
    match s.below(14) {
        0 => f64::INFINITY,
        1 => f64::NEG_INFINITY,
        2 => 0.0,
        3 => 1e-3,
        4 => -1e-3,
        5 => 1.0,
        6 => -1.0,
        7 => 1.5,
        8 => -1.5,
        9 => 1e3,
        10 => -1e3,
        11 => 0.5,
        _ => (s.unit() * 2.0 - 1.0) * 1e3,
    }
}

pub fn pick_gamma(s: &mut Stream) -> f64 {
    match s.below(7) {
        0 => 0.0,
        1 => 1e-3,
        2 => 1.0,
        3 => 2.0,
        4 => 1e3,
        _ => s.unit() * 8.0,
    }
}

#[derive(Clone, Debug)]
pub struct Cfg {
    pub method: Method,
    pub params: Option<Params>,
    pub params_name: &'static str,
    pub iters: u64,
    pub threshold: f64,
    pub threads: usize,
    pub sampling_seed: u64,
}

pub fn pick_params(s: &mut Stream) -> (Option<Params>, &'static str) {
    match s.weighted(&[2, 1, 1, 1, 1, 1, 8]) {
        0 => (None, "none"),
        1 => (Some(Params::VANILLA), "vanilla"),
        2 => (Some(Params::LCFR), "lcfr"),
        3 => (Some(Params::CFR_PLUS), "cfr_plus"),
        4 => (Some(Params::DCFR), "dcfr"),
        5 => (Some(Params::DCFR_PRUNE), "dcfr_prune"),
        _ => (
            Some(Params {
                a: pick_exponent(s),
                b: pick_exponent(s),
                g: pick_gamma(s),
                w: pick_exponent(s),
            }),
            "custom",
        ),
    }
}

pub fn lib_preset(name: &str, p: &Option<Params>) -> Option<RegretParams> {
    match name {
        "none" => None,
        "vanilla" => Some(RegretParams::vanilla()),
        "lcfr" => Some(RegretParams::lcfr()),
        "cfr_plus" => Some(RegretParams::cfr_plus()),
        "dcfr" => Some(RegretParams::dcfr()),
        "dcfr_prune" => Some(RegretParams::dcfr_prune()),
        _ => p.as_ref().map(glue::lib_params),
    }
}

pub fn decode(bytes: &[u8], thorough: bool) -> (Built, Cfg) {
    let (mut s, mut gs) = crate::stream::split(bytes, 24);
    let cfg = if s.chance(48) { GenCfg::medium() } else { GenCfg::small() };
    let built = gen_built(&mut gs, &cfg);
    let method = [Method::Full, Method::Sampled, Method::External][s.below(3)];
    let (params, params_name) = pick_params(&mut s);
    let iters = match s.weighted(&[30, 1, 3]) {
        0 => s.below(41) as u64,
        1 => 300,
        // the documented "unlimited" budgets; they end only through the threshold
        _ => [u64::MAX, u64::MAX - 1, 1 << 63, 1 << 40][s.below(4)],
    };
    let mut threshold = [0.0, f64::NAN, f64::INFINITY, f64::NEG_INFINITY, -1.0, 1e-300, 0.1, 1e9][s.below(8)];
    if iters > 300 {
        // every bound is finite after one iteration, so +inf stops there
        threshold = f64::INFINITY;
    }
    let sampling_seed = s.u32() as u64;
    let threads = match s.weighted(&[6, 8, 1, 1, 1]) {
        0 => 1,
        // two to four threads split small games into the most tasks
        1 => [2, 2, 3, 4, 2 + s.below(15), 2 + s.below(15)][s.below(6)],
        2 => 0,
        3 => {
            if thorough && s.chance(16) {
                512
            } else {
                [33, 64][s.below(2)]
            }
        }
        _ => [usize::MAX / 3 + 1, usize::MAX / 2, usize::MAX][s.below(3)],
    };
    (
        built,
        Cfg {
            method,
            params,
            params_name,
            iters,
            threshold,
            threads,
            sampling_seed,
        },
    )
}

pub fn check(bytes: &[u8], ctx: &Ctx) -> Verdict {
    let (built, cfg) = decode(bytes, ctx.tier == crate::runner::Tier::Thorough);
    let game = match build_valid("C05", &built.tree) {
        Ok(g) => g,
        Err(v) => return v,
    };
    let info = &built.info;
    let params = lib_preset(cfg.params_name, &cfg.params);
    // scheduling noise at the instrumented points (inside the critical sections of shared
    // infosets too), different for every case
    cfr::verif::set_yield_mode(0x5151_7A77 ^ hash_bytes(bytes));
    // production samplers on per-site seeded generators: the run is a function of the case
    let rec = glue::Recorder::new(glue::Mode::Seeded(cfg.sampling_seed));
    let res = catch_unwind(AssertUnwindSafe(|| {
        glue::solve_hooked(&game, &rec, cfg.method, cfg.iters, cfg.threshold, cfg.threads, params)
    }));
    let what = format!(
        "{:?} params {} {:?} iters {} threshold {} threads {} sampling seed {}",
        cfg.method, cfg.params_name, cfg.params, cfg.iters, cfg.threshold, cfg.threads, cfg.sampling_seed
    );
    let mut labels = vec![cfg.params_name];
    let res = match res {
        Ok(r) => r,
        Err(_) => {
            let multi = cfg.threads != 1;
            return Verdict::fail(
                if multi { "C05/panic/multi-thread" } else { "C05/panic/single-thread" },
                format!("solve panicked: {}", what),
            );
        }
    };
    match res {
        Err(e) => {
            if cfg.threads == 1 {
                return Verdict::fail("C05/error-with-one-thread", format!("solve returned {:?} with one thread: {}", e, what));
            }
            if cfg.threads > usize::MAX / 3 {
                if e != SolveError::ThreadOverflow {
                    return Verdict::fail("C05/wrong-error-overflow", format!("expected ThreadOverflow, got {:?}: {}", e, what));
                }
                labels.push("thread-overflow");
            } else if cfg.threads <= 64 && cfg.threads != 0 {
                // nothing documented forbids a spawn error, but this sandbox spawns 64 threads easily
                return Verdict::fail("C05/spawn-error-small-pool", format!("solve returned {:?}: {}", e, what));
            } else {
                labels.push("spawn-error");
            }
            return Verdict::Pass { nontrivial: None, labels };
        }
        Ok((strats, bound)) => {
            if cfg.threads > usize::MAX / 3 {
                return Verdict::fail("C05/no-overflow-error", format!("solve succeeded with {} threads", cfg.threads));
            }
            let named = glue::read_named(&strats);
            if let Err(m) = named_valid(info, &named) {
                let sig = if m.contains("NaN") || m.contains("sum to NaN") {
                    "C05/invalid-profile/nan"
                } else {
                    "C05/invalid-profile"
                };
                return Verdict::fail(sig, format!("{} -> {}", what, m));
            }
            if let Err(e) = game.from_named(strats.as_named()) {
                return Verdict::fail("C05/result-not-importable", format!("{} -> from_named(as_named) = {:?}", what, e));
            }
            for p in [PlayerNum::One, PlayerNum::Two] {
                let b = bound.player_regret_bound(p);
                if b.is_nan() || b < 0.0 {
                    return Verdict::fail("C05/bound-invalid", format!("{} -> bound {:?} = {}", what, p, b));
                }
                if b.is_infinite() != (cfg.iters == 0) {
                    return Verdict::fail(
                        "C05/bound-infinite",
                        format!("{} -> bound {:?} = {} after {} iterations", what, p, b, cfg.iters),
                    );
                }
            }
            let tot = bound.regret_bound();
            let want = f64::max(bound.player_regret_bound(PlayerNum::One), bound.player_regret_bound(PlayerNum::Two));
            if tot != want {
                return Verdict::fail("C05/total-bound", format!("{} -> total {} but players max {}", what, tot, want));
            }
        }
    }
    let inf_exp = cfg.params.map(|p| p.a.is_infinite() || p.b.is_infinite()).unwrap_or(false);
    let odd_w = cfg.params.map(|p| p.w < 0.0 || p.w.is_infinite()).unwrap_or(true);
    if cfg.threads != 1 {
        labels.push("multi-thread");
    }
    if inf_exp {
        labels.push("infinite-exponent");
    }
    if cfg.iters > 300 {
        labels.push("unlimited-budget");
    }
    if cfg.params.map(|p| p.w != 0.0 && p.w.is_finite()).unwrap_or(false) {
        labels.push("softmax-weight");
    }
    labels.push(match cfg.method {
        Method::Full => "full",
        Method::Sampled => "sampled",
        Method::External => "external",
    });
    let nontrivial = cfg.iters >= 1 && info.num_multi() >= 1 && (inf_exp || odd_w || cfg.threads != 1);
    Verdict::Pass {
        nontrivial: if nontrivial {
            Some(hash_bytes(format!("{}|{}", built.tree.brief(), what).as_bytes()))
        } else {
            None
        },
        labels,
    }
}

pub fn describe(bytes: &[u8]) -> Value {
    let (built, cfg) = decode(bytes, false);
    json!({"family": built.family, "game": built.tree.brief(), "config": format!("{:?}", cfg)})
}

pub fn prop() -> Prop {
    Prop {
        id: "C05",
        check,
        describe,
        rule: "generated games (all families incl. no infosets) x method x parameters (None, the five presets, RegretParams::new with exponents from {+-inf, 0, +-1e-3, +-1, +-1.5, +-1e3, random}, gamma from {0,1e-3,1,2,1e3,random}) x budget 0..40 (rarely 300; one in ten u64::MAX, u64::MAX-1, 2^63 or 2^40 with threshold +inf, which must stop after the first iteration) x threshold {0,NaN,+-inf,-1,1e-300,0.1,1e9} x threads {1, 2..16 (two thirds of them 2-4), 0, 33, 64, usize::MAX/3+1, usize::MAX/2, usize::MAX}; oracle: no panic, Err only with threads != 1 (ThreadOverflow above usize::MAX/3), valid profile by the C13 predicate, importable, bounds non-negative, not NaN, infinite iff the budget is 0. Non-trivial = T >= 1, N >= 1 and (infinite exponent, or negative/infinite no_positive weight, or more than one thread); distinct by (tree, configuration).",
        max_len: 700,
        cases_quick: 24_000,
        cases_thorough: 800_000,
        assumptions: &["a hang is reported as inconclusive (exit 2) by a 120 s per-case watchdog", "|exponent| <= 1e3 or infinite"],
        post: None,
        watchdog_s: 60,
        hang_is_violation: true,
        shrink_iters: 300,
    }
}
