//! C15 — the output of the command line program is faithful to the game in the input file
use super::c03::PRESETS;
use super::common::*;
use crate::cli::{self, EfgOpts};
use crate::gen::GenCfg;
use crate::oracle;
use crate::runner::{Ctx, Prop, Verdict};
use crate::stream::{hash_bytes, Stream};
use crate::tree::Info;
use serde_json::{json, Value};
use std::collections::BTreeMap;

pub struct Case {
    pub built: Built,
    pub efg: bool,
    pub text: String,
    pub printed_names: [BTreeMap<String, String>; 2],
    pub constant: f64,
    pub interior: usize,
    pub unnamed: usize,
    pub args: Vec<String>,
    pub via_stdin: bool,
    pub to_file: bool,
    pub ext: &'static str,
    pub explicit_format: bool,
}

pub const METHODS: [&str; 3] = ["full", "sampled", "external"];
pub const PRESET_FLAGS: [&str; 5] = ["vanilla", "lcfr", "cfr-plus", "dcfr", "dcfr-prune"];

pub fn decode_game(s: &mut Stream, gs: &mut Stream, dyadic: bool) -> (Built, bool, String, [BTreeMap<String, String>; 2], f64, usize, usize) {
    let mut cfg = GenCfg::small();
    cfg.rational_weights = true;
    cfg.dyadic = dyadic;
    if s.chance(32) {
        cfg.max_nodes = 120;
        cfg.max_depth = 8;
    }
    let g = crate::gen::gen_game(gs, &cfg);
    let mut tree = g.tree;
    if s.chance(64) {
        cli::fancy_names(s, &mut tree);
    }
    let info = Info::of(&tree);
    let efg = s.bool();
    let (text, names, constant, interior, unnamed) = if efg {
        let mut constant: f64 = [0.0, 1.0, -1.0, 10.0, 2.5, 0.0][s.below(6)];
        // Splitting inexact payoffs between interior outcomes and leaves, or subtracting them from
        // a constant, introduces rounding in the file itself; the program's constant-sum test is
        // relative to player one's payoff range, so such files are only generated when they are
        // constant-sum beyond doubt.
        let pays = tree.payoffs();
        let exact = pays.iter().all(|x| (x * 1048576.0).fract() == 0.0 && x.abs() < 1e9);
        let range = oracle::payoff_range(&tree);
        if !exact && !(range > 1e-6 * (constant.abs() + oracle::scale_of(&tree))) {
            constant = 0.0;
        }
        let opts = EfgOpts {
            unit: 0.0, constant,
            interior: s.bool() && exact,
            share_outcomes: s.bool(),
            unnamed_fraction: [0, 64, 256][s.below(3)],
        free_chance_labels: true,
    };
        let out = cli::to_efg_text(&tree, &opts, s);
        (out.text, out.printed, constant, out.interior_outcomes, out.unnamed_infosets)
    } else {
        (cli::to_json_text(&tree, s), cli::identity_names(&info), 0.0, 0, 0)
    };
    (
        Built {
            tree,
            family: g.family,
            info,
        },
        efg,
        text,
        names,
        constant,
        interior,
        unnamed,
    )
}

pub fn decode(bytes: &[u8]) -> Case {
    let (mut s, mut gs) = crate::stream::split(bytes, 300);
    let (built, efg, text, printed_names, constant, interior, unnamed) = decode_game(&mut s, &mut gs, false);
    let mut args: Vec<String> = Vec::new();
    let method = s.below(3);
    if method != 2 || s.bool() {
        args.push("-m".into());
        args.push(METHODS[method].into());
    }
    let preset = s.below(5);
    if preset != 3 || s.bool() {
        args.push(if s.bool() { "-d".into() } else { "--discount".into() });
        args.push(PRESET_FLAGS[preset].into());
    }
    let iters = match s.weighted(&[4, 3, 1]) {
        0 => 1 + s.below(10),
        1 => 10 + s.below(90),
        _ => 100 + s.below(201),
    };
    args.push("-t".into());
    args.push(iters.to_string());
    let par = [1usize, 1, 0, 2, 4][s.below(5)];
    args.push("-p".into());
    args.push(par.to_string());
    let clip = [0.0, 1e-3, 0.3, 0.7][s.below(4)];
    if clip != 0.0 || s.bool() {
        args.push("-c".into());
        args.push(format!("{}", clip));
    }
    if s.chance(64) {
        args.push("-r".into());
        args.push(["0.05", "1e-3", "0"][s.below(3)].into());
    }
    let via_stdin = s.chance(80);
    let to_file = s.chance(64);
    let explicit_format = via_stdin || s.chance(100);
    let ext = if efg {
        if explicit_format && s.bool() { "txt" } else { "efg" }
    } else if explicit_format && s.bool() {
        "txt"
    } else {
        "json"
    };
    if explicit_format && !(via_stdin && s.chance(64)) {
        args.push("--input-format".into());
        args.push(if efg { "gambit".into() } else { "json".into() });
    }
    Case {
        built,
        efg,
        text,
        printed_names,
        constant,
        interior,
        unnamed,
        args,
        via_stdin,
        to_file,
        ext,
        explicit_format,
    }
}

pub struct Finished {
    pub printed: cli::Printed,
    pub raw: String,
}

/// run the program on the case's text with the case's routes; Err carries (signature suffix, message)
pub fn run_case_cli(text: &str, args: &[String], via_stdin: bool, to_file: bool, ext: &str) -> Result<Finished, (String, String)> {
    let mut args: Vec<String> = args.to_vec();
    let mut in_path = None;
    let mut out_path = None;
    if !via_stdin {
        let p = cli::tmp_path(ext);
        std::fs::write(&p, text).map_err(|e| ("harness-io".to_string(), e.to_string()))?;
        args.push("-i".into());
        args.push(p.display().to_string());
        in_path = Some(p);
    }
    if to_file {
        let p = cli::tmp_path("out");
        // half of the destinations exist already and hold a longer, older result: the new one
        // has to replace it, not be written over its beginning
        if hash_bytes(text.as_bytes()) & 1 == 1 {
            let stale = format!("{{\"regret\":0.5,\"left_over_from_an_earlier_run\":\"{}\"}}\n", "x".repeat(3000 + text.len()));
            std::fs::write(&p, stale).map_err(|e| ("harness-io".to_string(), e.to_string()))?;
        }
        args.push("-o".into());
        args.push(p.display().to_string());
        out_path = Some(p);
    }
    let ran = cli::run_cli(&args, if via_stdin { Some(text) } else { None });
    let cleanup = |a: &Option<std::path::PathBuf>, b: &Option<std::path::PathBuf>| {
        for p in [a, b].into_iter().flatten() {
            let _ = std::fs::remove_file(p);
        }
    };
    if ran.timed_out {
        cleanup(&in_path, &out_path);
        return Err(("timeout".into(), format!("the program did not finish within 60 s: {:?}", args)));
    }
    if ran.code != Some(0) {
        cleanup(&in_path, &out_path);
        let first_line = ran.stderr.lines().filter(|l| !l.trim().is_empty()).take(3).collect::<Vec<_>>().join(" / ");
        return Err((
            "nonzero-exit".into(),
            format!("exit status {:?} for a valid input; stderr: {} | args {:?}", ran.code, first_line.chars().take(500).collect::<String>(), args),
        ));
    }
    let raw = if let Some(p) = &out_path {
        if !ran.stdout.trim().is_empty() {
            cleanup(&in_path, &out_path);
            return Err(("stdout-with-output-file".into(), "wrote to stdout although -o was given".into()));
        }
        std::fs::read_to_string(p).unwrap_or_default()
    } else {
        ran.stdout.clone()
    };
    cleanup(&in_path, &out_path);
    match cli::parse_output(&raw) {
        Ok(printed) => Ok(Finished { printed, raw }),
        Err(m) => Err(("output-format".into(), m)),
    }
}

/// the faithfulness predicate: strategies valid for the file's infosets and numbers equal to an
/// independent evaluation of the printed strategies on the game as written
pub fn faithful(id: &str, built: &Built, names: &[BTreeMap<String, String>; 2], constant: f64, printed: &cli::Printed) -> Result<oracle::Eval, Verdict> {
    let prof = cli::printed_profile(&built.info, names, printed).map_err(|m| Verdict::fail(format!("{}/printed-strategy-invalid", id), m))?;
    let eval = oracle::evaluate(&built.tree, &built.info, &prof, 100_000).map_err(|m| Verdict::fail("harness/oracles-disagree", m))?;
    let scale = oracle::scale_of(&built.tree).max(constant.abs());
    let tol = 1e-9 * scale;
    if !((printed.util[0] - eval.util).abs() <= tol) {
        return Err(Verdict::fail(
            format!("{}/player-one-utility", id),
            format!("player_one_utility printed {} but the printed strategies give player one {} on the file's game", printed.util[0], eval.util),
        ));
    }
    let want2 = constant - eval.util;
    if !((printed.util[1] - want2).abs() <= tol) {
        return Err(Verdict::fail(
            format!("{}/player-two-utility", id),
            format!(
                "player_two_utility printed {} but the printed strategies give player two {} on the file's game (constant sum {}, player one {})",
                printed.util[1], want2, constant, eval.util
            ),
        ));
    }
    for p in 0..2 {
        if !((printed.regrets[p] - eval.regret[p]).abs() <= tol) {
            return Err(Verdict::fail(
                format!("{}/player-regret", id),
                format!("player {} regret printed {} but the printed strategies have regret {} on the file's game", p + 1, printed.regrets[p], eval.regret[p]),
            ));
        }
    }
    if printed.regret != f64::max(printed.regrets[0], printed.regrets[1]) {
        return Err(Verdict::fail(format!("{}/total-regret", id), format!("regret {} is not the larger of {:?}", printed.regret, printed.regrets)));
    }
    Ok(eval)
}

pub fn check(bytes: &[u8], _ctx: &Ctx) -> Verdict {
    let case = decode(bytes);
    let (contract, _) = crate::validate::check(&case.built.tree);
    if contract != crate::validate::Contract::MustAccept {
        return Verdict::fail("harness/generated-invalid", format!("{:?}", contract));
    }
    let fin = match run_case_cli(&case.text, &case.args, case.via_stdin, case.to_file, case.ext) {
        Ok(f) => f,
        Err((sig, msg)) => {
            if sig == "timeout" || sig == "harness-io" {
                return Verdict::fail(format!("harness/{}", sig), msg);
            }
            // known finding F17: the JSON reader's parser refuses documents nested deeper than 128
            // objects, i.e. valid games deeper than 32-42 plies; identified by exactly that
            if sig == "nonzero-exit" && !case.efg && cli::json_nesting(&case.built.tree) > 127 && (msg.contains("recursion limit exceeded") || msg.contains("couldn't parse any known format")) {
                return Verdict::fail("C15/nonzero-exit/json-nested-deeper-than-the-parser-allows", msg);
            }
            return Verdict::fail(format!("C15/{}/{}", sig, if case.efg { "gambit" } else { "json" }), msg);
        }
    };
    let eval = match faithful("C15", &case.built, &case.printed_names, case.constant, &fin.printed) {
        Ok(e) => e,
        Err(v) => return v,
    };
    let mut labels = vec![if case.efg { "gambit" } else { "json" }];
    if case.constant != 0.0 {
        labels.push("constant-sum-nonzero");
    }
    if case.interior > 0 {
        labels.push("interior-payoffs");
    }
    if case.unnamed > 0 {
        labels.push("unnamed-infosets");
    }
    if case.via_stdin {
        labels.push("stdin");
    }
    if case.to_file {
        labels.push("output-file");
    }
    let many = (0..2).all(|p| case.built.info.infosets[p].len() >= 2);
    let positive = eval.regret[0] > 0.0 || eval.regret[1] > 0.0;
    if positive {
        labels.push("positive-regret");
    }
    let nontrivial = positive && ((case.efg && (case.constant != 0.0 || case.interior > 0)) || many);
    Verdict::Pass {
        nontrivial: if nontrivial { Some(hash_bytes(format!("{}|{:?}", case.text, case.args).as_bytes())) } else { None },
        labels,
    }
}

pub fn describe(bytes: &[u8]) -> Value {
    let c = decode(bytes);
    json!({"format": if c.efg { "gambit" } else { "json" }, "file": c.text.chars().take(6000).collect::<String>(), "args": c.args, "stdin": c.via_stdin, "output_file": c.to_file, "constant_sum": c.constant})
}

pub fn prop() -> Prop {
    let _ = PRESETS;
    Prop {
        id: "C15",
        check,
        describe,
        rule: "the harness generates an abstract constant-sum game and serialises it itself: JSON DSL (keys in stream-chosen order, optional chance infosets) or Gambit .efg (constant c in {0,+-1,10,2.5}, payoffs split between interior outcomes and leaves, outcomes shared by number, rational/decimal numbers, named and unnamed infosets, member nodes listing actions - and members of a chance infoset their outcomes, also equally labelled ones - in different orders, labels needing escapes, comments, line/space separators) x -m x -d x -t 1..300 x -p {0,1,2,4} x -c x -r x file/stdin x stdout/-o (the -o destination is new or holds a longer older result); oracle: exit 0, one JSON object with the seven documented keys, strategies valid over exactly the file's infosets (single-action ones included), and utilities/regrets equal (1e-9 relative) to an independent evaluation of the printed strategies with each player's own payoffs. Non-trivial = printed regret > 0 and (Gambit with c != 0 or interior payoffs, or both players have >= 2 infosets); distinct by (file text, arguments).",
        max_len: 1000,
        cases_quick: 60_000,
        cases_thorough: 600_000,
        assumptions: &["the production binary (default features) is built from /repo's working tree into /verif/target/cli", "infoset names are distinct per player (name clashes are C17's class)"],
        post: None,
        watchdog_s: 120,
        hang_is_violation: false,
        shrink_iters: 800,
    }
}
