//! helpers for the properties that compare solver runs (C06-C10, C12, C16)
use super::common::Built;
use crate::glue::{self, Decision, FnDecider, Maps};
use crate::refcfr::{self, Method, Params, RefGame, RefResult, RunCfg, TieRule};
use crate::stream::Stream;
use crate::tree::{collapse, Profile, T};

pub struct Prepared {
    pub collapsed: T,
    pub rg: RefGame,
    pub maps: Maps,
}

pub fn prepare(id: &str, built: &Built, game: &glue::G) -> Result<Prepared, crate::runner::Verdict> {
    let collapsed = collapse(&built.tree);
    let rg = refcfr::flatten(&collapsed);
    let dump = game.verif_dump();
    let maps = glue::zip_dump(&dump, &collapsed, &rg)
        .map_err(|m| crate::runner::Verdict::fail(format!("{}/compact-tree-differs", id), m))?;
    Ok(Prepared { collapsed, rg, maps })
}

pub fn ref_profile(rg: &RefGame, strat: &[Vec<Vec<f64>>; 2]) -> Profile {
    let mut prof: Profile = Default::default();
    for p in 0..2 {
        for ((name, _), v) in rg.infosets[p].iter().zip(strat[p].iter()) {
            prof[p].insert(name.clone(), v.clone());
        }
    }
    prof
}

pub fn max_diff(a: &Profile, b: &Profile) -> (f64, String) {
    let mut worst = 0.0;
    let mut at = String::new();
    for p in 0..2 {
        for (name, va) in a[p].iter() {
            if let Some(vb) = b[p].get(name) {
                for (x, y) in va.iter().zip(vb.iter()) {
                    let d = (x - y).abs();
                    if d > worst || d.is_nan() {
                        worst = if d.is_nan() { f64::INFINITY } else { d };
                        at = format!("player {} infoset {:?}: {:?} vs {:?}", p + 1, name, va, vb);
                    }
                }
            } else {
                return (f64::INFINITY, format!("infoset {:?} missing", name));
            }
        }
    }
    (worst, at)
}

pub struct Guarded {
    pub t_eff: u64,
    pub result: RefResult,
}

/// Run the reference with its conditioning guard. Err(reason) means the case cannot be compared.
pub fn reference_guard(
    prep: &Prepared,
    method: Method,
    params: Params,
    iters: u64,
    decision: &Decision,
    dseed: u64,
    respect_order_ambiguity: bool,
    tie: TieRule,
) -> Result<Guarded, &'static str> {
    let run = |t: u64, perturb: Option<u64>| -> RefResult {
        let mut dec = FnDecider {
            dec: decision.clone(),
            seed: dseed,
            maps: &prep.maps,
        };
        let mut none = refcfr::NoDraws;
        refcfr::run(
            &prep.rg,
            RunCfg {
                method,
                params,
                iters: t,
                perturb,
                decider: if method == Method::Full { &mut none } else { &mut dec },
                tie,
            },
        )
    };
    let first = run(iters, None);
    let mut t_eff = iters;
    if let Some(f) = first.fragile_at {
        t_eff = t_eff.min(f);
    }
    if respect_order_ambiguity {
        if let Some(f) = first.ambiguous_at {
            t_eff = t_eff.min(f);
        }
    }
    if t_eff == 0 && iters > 0 {
        return Err("fragile-from-the-first-iteration");
    }
    let result = if t_eff < iters { run(t_eff, None) } else { first };
    let shaken = run(t_eff, Some(dseed ^ 0x5EED));
    let a = ref_profile(&prep.rg, &result.avg);
    let b = ref_profile(&prep.rg, &shaken.avg);
    if max_diff(&a, &b).0 > 1e-7 {
        return Err("ill-conditioned");
    }
    if result.avg_underflow {
        return Err("average-weights-underflow");
    }
    if result.draws.len() != shaken.draws.len()
        || result.draws.iter().zip(shaken.draws.iter()).any(|(x, y)| x.choice != y.choice)
    {
        return Err("ill-conditioned-draws");
    }
    Ok(Guarded { t_eff, result })
}

pub fn pick_moderate_params(s: &mut Stream) -> (Params, &'static str) {
    match s.weighted(&[2, 2, 2, 2, 2, 6]) {
        0 => (Params::VANILLA, "vanilla"),
        1 => (Params::LCFR, "lcfr"),
        2 => (Params::CFR_PLUS, "cfr_plus"),
        3 => (Params::DCFR, "dcfr"),
        4 => (Params::DCFR_PRUNE, "dcfr_prune"),
        _ => {
            let exp = |s: &mut Stream| match s.below(13) {
                0 | 1 => f64::INFINITY,
                2 | 3 => f64::NEG_INFINITY,
                4 | 5 => 0.0,
                // large finite exponents: t^x leaves the range of a double, the factor does not
                6 => [30.0, -30.0, 300.0, -300.0, 1000.0, -1000.0][s.below(6)],
                _ => (s.unit() * 2.0 - 1.0) * 5.0,
            };
            let a = exp(s);
            let b = exp(s);
            let g = match s.below(8) {
                0..=3 => 0.0,
                // heavy weighting of late iterations: early contributions become tiny, not zero
                4 => [12.0, 20.0, 40.0, 100.0, 1000.0][s.below(5)],
                _ => 0.01 + s.unit() * 8.0,
            };
            let w = match s.below(5) {
                0 => 0.0,
                1 => f64::INFINITY,
                2 => f64::NEG_INFINITY,
                _ => (s.unit() * 2.0 - 1.0) * 3.0,
            };
            (Params { a, b, g, w }, "custom")
        }
    }
}

pub fn pick_decision(s: &mut Stream) -> (Decision, &'static str) {
    match s.weighted(&[5, 2, 1, 1, 2]) {
        0 => (Decision::Proportional, "proportional"),
        1 => (Decision::UniformSupport, "uniform-support"),
        2 => (Decision::First, "first"),
        3 => (Decision::Last, "last"),
        _ => {
            let n = 1 + s.below(8);
            (Decision::Scripted((0..n).map(|_| s.u8()).collect()), "scripted")
        }
    }
}

pub fn method_name(m: Method) -> &'static str {
    match m {
        Method::Full => "full",
        Method::Sampled => "sampled",
        Method::External => "external",
    }
}
