//! C13 — the named view of a strategy is complete, consistent and round-trips
use super::common::*;
use crate::gen::GenCfg;
use crate::glue::{self, Named};
use crate::runner::{Ctx, Prop, Verdict};
use crate::stream::{hash_bytes, Stream};
use crate::tree::Profile;
use cfr::Strategies;
use serde_json::{json, Value};

/// iterate the named view checking the advertised length before every call of next()
fn read_with_lengths(strats: &Strategies<'_, String, String>) -> Result<Named, String> {
    let mut res: Named = Default::default();
    let iters = strats.as_named();
    for (p, mut outer) in iters.into_iter().enumerate() {
        let mut outer_lens = Vec::new();
        loop {
            outer_lens.push(outer.len());
            match outer.next() {
                None => break,
                Some((name, mut acts)) => {
                    let mut inner_lens = Vec::new();
                    let mut items = Vec::new();
                    loop {
                        inner_lens.push(acts.len());
                        match acts.next() {
                            None => break,
                            Some((a, pr)) => items.push((a.clone(), pr)),
                        }
                    }
                    let m = items.len();
                    for (k, l) in inner_lens.iter().enumerate() {
                        if *l != m - k {
                            return Err(format!(
                                "action iterator of infoset {:?} (player {}) advertised length {} before its {}-th next() but then yielded {} more items",
                                name, p + 1, l, k + 1, m - k
                            ));
                        }
                    }
                    if acts.next().is_some() {
                        return Err("action iterator yielded an item after None".into());
                    }
                    res[p].push((name.clone(), items));
                }
            }
        }
        let n = res[p].len();
        for (k, l) in outer_lens.iter().enumerate() {
            if *l != n - k {
                return Err(format!(
                    "infoset iterator of player {} advertised length {} before its {}-th next() but then yielded {} more items",
                    p + 1, l, k + 1, n - k
                ));
            }
        }
        if outer.next().is_some() {
            return Err("infoset iterator yielded an item after None".into());
        }
    }
    Ok(res)
}

fn check_view(
    info: &crate::tree::Info,
    strats: &Strategies<'_, String, String>,
    model: Option<&Profile>,
) -> Result<(Named, Profile), Verdict> {
    let named = read_with_lengths(strats).map_err(|m| Verdict::fail("C13/iterator-length", m))?;
    let prof = named_valid(info, &named).map_err(|m| Verdict::fail("C13/view-invalid", m))?;
    if let Some(model) = model {
        // exactly the positive-probability actions, with the model's probabilities
        if let Err(m) = profiles_close(model, &prof, 4.0) {
            return Err(Verdict::fail("C13/view-differs-from-profile", m));
        }
    }
    Ok((named, prof))
}

pub fn check(bytes: &[u8], _ctx: &Ctx) -> Verdict {
    let (mut s, mut gs) = crate::stream::split(bytes, 128);
    let built = gen_built(&mut gs, &GenCfg::small());
    let game = match build_valid("C13", &built.tree) {
        Ok(g) => g,
        Err(v) => return v,
    };
    let info = &built.info;
    let (mut cur, model0, source) = match some_strategies(&mut s, &game, info) {
        Ok(x) => x,
        Err(v) => return v,
    };
    let mut labels = vec![source];
    // the injected model, normalised
    let mut model: Option<Profile> = model0.map(|prof| {
        let mut m = prof.clone();
        for pl in m.iter_mut() {
            for v in pl.values_mut() {
                let tot: f64 = v.iter().sum();
                v.iter_mut().for_each(|x| *x /= tot);
            }
        }
        m
    });
    let (mut named, mut prof) = match check_view(info, &cur, model.as_ref()) {
        Ok(x) => x,
        Err(v) => return v,
    };
    crate::runner::note(|| format!("game {}", built.tree.brief()));
    crate::runner::note(|| format!("profile ({}) as read through the named view with lengths checked: {:?}", source, named));
    let nops = s.below(6);
    for _ in 0..nops {
        match s.below(4) {
            0 => {
                // truncate below the smallest per-infoset maximum so that every infoset keeps an action
                let mut min_max = 1.0f64;
                for pl in prof.iter() {
                    for v in pl.values() {
                        min_max = min_max.min(v.iter().copied().fold(0.0, f64::max));
                    }
                }
                let h = match s.below(5) {
                    k @ 0..=2 => min_max * [0.0, 0.3, 0.9][k],
                    _ => {
                        // exactly one of the profile's probabilities (the boundary of "exceeds")
                        let mut ps: Vec<f64> = prof.iter().flat_map(|pl| pl.values().flat_map(|v| v.iter().copied())).filter(|p| *p > 0.0 && *p < min_max).collect();
                        ps.sort_by(|a, b| a.partial_cmp(b).unwrap());
                        if ps.is_empty() {
                            0.0
                        } else {
                            labels.push("op-truncate-at-a-probability");
                            ps[s.below(ps.len().min(256))]
                        }
                    }
                };
                cur.truncate(h);
                labels.push("op-truncate");
                let mut m = prof.clone();
                for pl in m.iter_mut() {
                    for v in pl.values_mut() {
                        let tot: f64 = v.iter().filter(|x| **x > h).sum();
                        v.iter_mut().for_each(|x| *x = if *x > h { *x / tot } else { 0.0 });
                    }
                }
                model = Some(m);
            }
            1 => {
                let again = match game.from_named(cur.as_named()) {
                    Ok(a) => a,
                    Err(e) => return Verdict::fail("C13/reimport-rejected", format!("from_named(as_named) failed: {:?}", e)),
                };
                cur = again;
                labels.push("op-reimport");
                model = Some(prof.clone());
            }
            2 => {
                // permute infosets and actions
                let mut perm = named.clone();
                for pl in perm.iter_mut() {
                    let n = pl.len();
                    for i in (1..n).rev() {
                        let j = s.below(i + 1);
                        pl.swap(i, j);
                    }
                    for (_, acts) in pl.iter_mut() {
                        acts.reverse();
                    }
                }
                let again = match game.from_named(perm) {
                    Ok(a) => a,
                    Err(e) => return Verdict::fail("C13/reimport-rejected", format!("from_named(permuted as_named) failed: {:?}", e)),
                };
                cur = again;
                labels.push("op-reimport-permuted");
                model = Some(prof.clone());
            }
            _ => {
                cur = cur.clone();
                labels.push("op-clone");
            }
        }
        match check_view(info, &cur, model.as_ref()) {
            Ok((n, p)) => {
                named = n;
                prof = p;
            }
            Err(v) => return v,
        }
        crate::runner::note(|| format!("after {} -> {:?}", labels.last().copied().unwrap_or(""), named));
    }
    // final explicit round trip
    match game.from_named(cur.as_named()) {
        Ok(again) => {
            let n2 = glue::read_named(&again);
            match glue::to_profile(info, &n2) {
                Ok(p2) => {
                    if let Err(m) = profiles_close(&prof, &p2, 4.0) {
                        return Verdict::fail("C13/round-trip-differs", m);
                    }
                }
                Err(m) => return Verdict::fail("C13/view-invalid", m),
            }
        }
        Err(e) => return Verdict::fail("C13/reimport-rejected", format!("from_named(as_named) failed: {:?}", e)),
    }
    let zero = prof.iter().any(|m| m.values().any(|v| v.iter().any(|x| *x == 0.0)));
    let has_multi = info.num_multi() > 0;
    let has_single = info.singles(0).count() + info.singles(1).count() > 0;
    if zero {
        labels.push("zero-probability-action");
    }
    if has_single {
        labels.push("single-action-infoset");
    }
    let nontrivial = zero && has_multi && has_single;
    Verdict::Pass {
        nontrivial: if nontrivial {
            Some(hash_bytes(format!("{}|{:?}", built.tree.brief(), prof).as_bytes()))
        } else {
            None
        },
        labels,
    }
}

pub fn describe(bytes: &[u8]) -> Value {
    crate::runner::describe_by_running(check, bytes)
}

pub fn prop() -> Prop {
    Prop {
        id: "C13",
        check,
        describe,
        rule: "small generated games x a profile (injected with exact zeros / pure / random, or solver output of each method at T in {0,1,5}) x an operation sequence of up to 5 ops from {truncate, re-import, re-import permuted, clone}; after every step the named view is read with ExactSizeIterator::len() queried before every next() and compared with the harness's infoset table and a model profile. Non-trivial = the profile has a zero-probability action and the game has both a multi-action and a single-action infoset; distinct by (tree, final profile).",
        max_len: 700,
        cases_quick: 1_000_000,
        cases_thorough: 15_000_000,
        assumptions: &["probabilities compared within 4 ulp; sums within 1e-9"],
        post: None,
        watchdog_s: 60,
        hang_is_violation: false,
        shrink_iters: 3000,
    }
}
