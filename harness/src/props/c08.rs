//! C08 — solvers compute the documented discounted-CFR iterates
use super::common::*;
use super::solvecmp::*;
use crate::gen::GenCfg;
use crate::glue::{self, Decision, Mode, Recorder};
use crate::refcfr::{Method, Params, TieRule};
use crate::runner::{Ctx, Prop, Verdict};
use crate::stream::hash_bytes;
use crate::tree::uniform_profile;
use cfr::RegretParams;
use serde_json::{json, Value};

pub struct Case {
    pub built: Built,
    pub method: Method,
    pub params: Params,
    pub params_name: &'static str,
    pub iters: u64,
    pub decision: Decision,
    pub decision_name: &'static str,
    pub dseed: u64,
    pub threads: usize,
}

pub fn decode(bytes: &[u8]) -> Case {
    let (mut s, mut gs) = crate::stream::split(bytes, 40);
    let mut cfg = if s.chance(64) { GenCfg::medium() } else { GenCfg::small() };
    if !s.chance(40) {
        cfg.generic = true;
    }
    cfg.max_nodes = cfg.max_nodes.min(200);
    let built = gen_built(&mut gs, &cfg);
    let method = [Method::Full, Method::Sampled, Method::External][s.below(3)];
    let (params, params_name) = pick_moderate_params(&mut s);
    let iters = match s.weighted(&[1, 6, 6, 3]) {
        0 => 0,
        1 => 1 + s.below(5) as u64,
        2 => 5 + s.below(16) as u64,
        _ => 20 + s.below(31) as u64,
    };
    let (decision, decision_name) = pick_decision(&mut s);
    let dseed = s.u32() as u64;
    // the multi-threaded variants of the three solvers compute the same iterates
    let threads = match s.weighted(&[14, 1, 1]) {
        0 => 1,
        1 => 2 + s.below(2),
        _ => 2 + s.below(7),
    };
    Case {
        threads,
        built,
        method,
        params,
        params_name,
        iters,
        decision,
        decision_name,
        dseed,
    }
}

fn preset_table() -> Result<(), String> {
    let table: [(&str, RegretParams, Params); 5] = [
        ("vanilla", RegretParams::vanilla(), Params { a: f64::INFINITY, b: f64::INFINITY, g: 0.0, w: 0.0 }),
        ("lcfr", RegretParams::lcfr(), Params { a: 1.0, b: 1.0, g: 1.0, w: f64::INFINITY }),
        ("cfr_plus", RegretParams::cfr_plus(), Params { a: f64::INFINITY, b: f64::NEG_INFINITY, g: 2.0, w: f64::INFINITY }),
        ("dcfr", RegretParams::dcfr(), Params { a: 1.5, b: 0.0, g: 2.0, w: f64::INFINITY }),
        ("dcfr_prune", RegretParams::dcfr_prune(), Params { a: 1.5, b: 0.5, g: 2.0, w: f64::INFINITY }),
    ];
    for (name, lib, doc) in table.iter() {
        if *lib != RegretParams::new(doc.a, doc.b, doc.g, doc.w) {
            return Err(format!("preset {} is {:?}, documented as {:?}", name, lib, doc));
        }
    }
    if RegretParams::default() != RegretParams::dcfr() {
        return Err(format!("default parameters are {:?}, documented as dcfr", RegretParams::default()));
    }
    Ok(())
}

pub fn check(bytes: &[u8], _ctx: &Ctx) -> Verdict {
    if let Err(m) = preset_table() {
        return Verdict::fail("C08/preset-table", m);
    }
    let case = decode(bytes);
    let game = match build_valid("C08", &case.built.tree) {
        Ok(g) => g,
        Err(v) => return v,
    };
    let prep = match prepare("C08", &case.built, &game) {
        Ok(p) => p,
        Err(v) => return v,
    };
    let info = &case.built.info;
    let mut labels = vec![case.params_name, method_name(case.method)];
    if case.method != Method::Full {
        labels.push(case.decision_name);
    }
    if case.threads > 1 {
        labels.push("several-threads");
    }
    let run_lib_with = |t: u64, params: Option<RegretParams>, threads: usize| -> Result<glue::Solved, Verdict> {
        let rec = Recorder::new(if case.method == Method::Full {
            Mode::Observe
        } else {
            Mode::Decide(case.decision.clone(), case.dseed)
        });
        let res = glue::solve_hooked(&game, &rec, case.method, t, 0.0, threads, params);
        if rec.fragile.load(std::sync::atomic::Ordering::SeqCst) {
            return Err(Verdict::Discard("decision-within-margin"));
        }
        glue::unpack(info, res).map_err(|m| Verdict::fail("C08/invalid-result", m))
    };
    let run_lib = |t: u64, params: Option<RegretParams>| run_lib_with(t, params, case.threads);
    // omitting the parameters means the documented default (compared bit for bit, so with one
    // thread: several threads add in no fixed order)
    if case.params_name == "dcfr" {
        let a = match run_lib_with(case.iters, None, 1) {
            Ok(x) => x,
            Err(v) => return v,
        };
        let b = match run_lib_with(case.iters, Some(RegretParams::dcfr()), 1) {
            Ok(x) => x,
            Err(v) => return v,
        };
        if a.prof != b.prof || a.bounds != b.bounds {
            return Verdict::fail("C08/default-is-not-dcfr", "solve(.., None) differs from solve(.., Some(dcfr))");
        }
        labels.push("default-vs-dcfr");
    }
    let mut tried = Vec::new();
    let mut last_msg = String::new();
    let mut t_used = 0;
    let mut differs_from_uniform = false;
    let mut matched = false;
    for tie in [TieRule::LastMaxFirstMin, TieRule::FirstMaxLastMin, TieRule::Uniform] {
        let guard = match reference_guard(&prep, case.method, case.params, case.iters, &case.decision, case.dseed, false, tie) {
            Ok(g) => g,
            Err(why) => {
                if tried.is_empty() {
                    return Verdict::Discard(why);
                } else {
                    continue;
                }
            }
        };
        if let Some(miss) = guard.result.missing_draw {
            return Verdict::fail("harness/missing-draw", format!("{:?}", miss));
        }
        let t = guard.t_eff;
        let lib = match run_lib(t, Some(glue::lib_params(&case.params))) {
            Ok(x) => x,
            Err(v) => return v,
        };
        let want = ref_profile(&prep.rg, &guard.result.avg);
        let (d, at) = max_diff(&want, &lib.prof);
        tried.push(tie);
        if d <= 1e-6 {
            matched = true;
            t_used = t;
            differs_from_uniform = max_diff(&want, &uniform_profile(info)).0 > 1e-3;
            if t < case.iters {
                labels.push("truncated-by-guard");
            }
            if tie != TieRule::LastMaxFirstMin {
                labels.push("matched-under-another-tie-rule");
            }
            break;
        }
        last_msg = format!(
            "{} after {} iterations with {:?}: library differs from the reference by {} at {} (reference first, tie rule {:?})",
            method_name(case.method), t, case.params, d, at, tie
        );
        if guard.result.tie_used_at.is_none() {
            // no unspecified choice was involved
            break;
        }
    }
    if !matched {
        if _ctx.strict {
            // replay mode: show where the two trajectories part
            for t in 1..=case.iters {
                if let Ok(g) = reference_guard(&prep, case.method, case.params, t, &case.decision, case.dseed, false, TieRule::LastMaxFirstMin) {
                    if let Ok(lib) = run_lib(g.t_eff, Some(glue::lib_params(&case.params))) {
                        let want = ref_profile(&prep.rg, &g.result.avg);
                        let (d, at) = max_diff(&want, &lib.prof);
                        println!("  t={} t_eff={} fragile_at={:?} ambiguous_at={:?} diff={:e} at {}", t, g.t_eff, g.result.fragile_at, g.result.ambiguous_at, d, at);
                        if std::env::var("VERIF_DUMP_REGRETS").is_ok() {
                            println!("    ref cum regrets: {:?}", g.result.cum_regret);
                            println!("    ref current: {:?}", g.result.current);
                        }
                    }
                }
            }
        }
        return Verdict::fail(format!("C08/iterates-differ/{}", method_name(case.method)), last_msg);
    }
    let nontrivial = t_used >= 2 && info.num_multi() >= 2 && differs_from_uniform;
    if t_used == 0 {
        labels.push("zero-iterations");
    }
    Verdict::Pass {
        nontrivial: if nontrivial {
            Some(hash_bytes(
                format!("{}|{:?}|{:?}|{}|{:?}|{}", case.built.tree.brief(), case.method, case.params, t_used, case.decision, case.dseed).as_bytes(),
            ))
        } else {
            None
        },
        labels,
    }
}

pub fn describe(bytes: &[u8]) -> Value {
    let c = decode(bytes);
    json!({
        "family": c.built.family,
        "game": if c.built.info.num_nodes <= 60 { c.built.tree.brief() } else { format!("({} nodes)", c.built.info.num_nodes) },
        "method": method_name(c.method), "params": format!("{:?}", c.params), "iterations": c.iters,
        "decision": format!("{:?}", c.decision), "decision_seed": c.dseed,
    })
}

pub fn prop() -> Prop {
    Prop {
        id: "C08",
        check,
        describe,
        rule: "small and medium generated games (mostly generic real payoffs) x {Full, Sampled, External} x parameters (five presets, tuples with exponents in {+-inf, 0, [-5,5]}, gamma in {0, (0,8]}, weight in {0, +-inf, [-3,3]}) x T in 0..50 x decision functions x {1 thread (seven cases in eight), 2..8 threads}; oracle: an independent reference implementation of discounted CFR on the abstract tree fed with the same sampling decisions; strategies within 1e-6 at every infoset up to the last iteration the conditioning guard admits (branch margins 1e-9, perturbation run, order-of-discounting ambiguity, exact ties resolved by any consistent rule); preset constants compared with the documented tuples; None == dcfr bitwise. Non-trivial = T >= 2, N >= 2 and the reference result differs from uniform by > 1e-3; distinct by (tree, method, parameters, T, decisions).",
        max_len: 900,
        cases_quick: 400_000,
        cases_thorough: 8_000_000,
        assumptions: &[
            "the reference model is trusted as the specification; it is itself tested against the repository's pinned example and the CFR bound in its self-test",
            "the order 'match, then discount' is not pinned by the documentation: iterations after the two orders diverge are not compared",
            "bounds under discounting are not compared (their formula is undocumented)",
        ],
        post: None,
        watchdog_s: 60,
        hang_is_violation: false,
        shrink_iters: 2000,
    }
}
