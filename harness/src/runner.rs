//! Case runner: fixed-work proptest partitions, statistics, evidence, known findings, replay files
use crate::stream::{from_hex, hash_bytes, mix2, to_hex};
use proptest::test_runner::{Config, RngSeed, TestCaseError, TestError, TestRunner};
use serde_json::{json, Value};
use std::collections::{BTreeMap, HashSet};
use std::panic::{catch_unwind, AssertUnwindSafe};
use std::path::{Path, PathBuf};
use std::sync::atomic::{AtomicBool, AtomicU64, Ordering};
use std::sync::Mutex;
use std::time::{Duration, Instant};

/// root of the verification tree; the registered commands never set VERIF_HOME, the scratch
/// runner for seeded changes (tools/try_seed_scratch.sh) does
pub fn verif_dir() -> String {
    std::env::var("VERIF_HOME").unwrap_or_else(|_| "/verif".to_string())
}
pub const PARTITIONS: usize = 16;

#[derive(Clone, Copy, Debug, PartialEq, Eq)]
pub enum Tier {
    Quick,
    Thorough,
}

impl Tier {
    pub fn name(&self) -> &'static str {
        match self {
            Tier::Quick => "quick",
            Tier::Thorough => "thorough",
        }
    }
}

#[derive(Clone, Debug)]
pub struct Ctx {
    pub tier: Tier,
    pub seed: u64,
    /// replay mode: no tolerance for tolerated panics, verbose
    pub strict: bool,
    pub partition: usize,
}

#[derive(Debug)]
pub enum Verdict {
    Pass {
        /// Some(key) when the case is non-trivial by the property's rule; key identifies the case
        nontrivial: Option<u64>,
        labels: Vec<&'static str>,
    },
    Discard(&'static str),
    Fail {
        sig: String,
        msg: String,
    },
}

impl Verdict {
    pub fn fail(sig: impl Into<String>, msg: impl Into<String>) -> Verdict {
        Verdict::Fail {
            sig: sig.into(),
            msg: msg.into(),
        }
    }
}

#[derive(Default)]
pub struct Stats {
    pub evaluations: u64,
    pub discards: BTreeMap<&'static str, u64>,
    pub labels: BTreeMap<&'static str, u64>,
    pub nontrivial: HashSet<u64>,
    pub sample_bytes: Vec<Vec<u8>>,
    pub known: BTreeMap<String, u64>,
    pub extra: BTreeMap<String, Value>,
    pub extra_samples: Vec<Value>,
}

impl Stats {
    fn merge(&mut self, other: Stats) {
        self.evaluations += other.evaluations;
        for (k, v) in other.discards {
            *self.discards.entry(k).or_insert(0) += v;
        }
        for (k, v) in other.labels {
            *self.labels.entry(k).or_insert(0) += v;
        }
        self.nontrivial.extend(other.nontrivial);
        self.sample_bytes.extend(other.sample_bytes);
        for (k, v) in other.known {
            *self.known.entry(k).or_insert(0) += v;
        }
        self.extra.extend(other.extra);
        self.extra_samples.extend(other.extra_samples);
    }
}

#[derive(Clone, Debug)]
pub struct Failure {
    pub sig: String,
    pub msg: String,
    pub bytes: Vec<u8>,
    pub extra: Value,
}

pub struct Prop {
    pub id: &'static str,
    pub check: fn(&[u8], &Ctx) -> Verdict,
    pub describe: fn(&[u8]) -> Value,
    pub rule: &'static str,
    pub max_len: usize,
    pub cases_quick: u32,
    pub cases_thorough: u32,
    pub assumptions: &'static [&'static str],
    /// additional fixed work outside proptest (exhaustive families, aggregate statistics, ...)
    pub post: Option<fn(&Ctx, &mut Stats) -> Vec<Failure>>,
    /// per case watchdog in seconds
    pub watchdog_s: u64,
    /// the property itself promises termination: a case that exceeds the watchdog and then also
    /// fails to finish twice in fresh processes is reported as a violation, not as inconclusive
    pub hang_is_violation: bool,
    /// shrink iterations (quick tier; thorough uses 8x)
    pub shrink_iters: u32,
}

#[derive(Clone, Debug)]
pub struct KnownFinding {
    pub property: String,
    pub signature: String,
    pub what: String,
    pub status: String,
}

pub fn load_known() -> Vec<KnownFinding> {
    let path = Path::new(&verif_dir()).join("known_findings.json");
    let text = match std::fs::read_to_string(&path) {
        Ok(t) => t,
        Err(_) => return Vec::new(),
    };
    let val: Value = serde_json::from_str(&text).expect("known_findings.json is not valid JSON");
    val["findings"]
        .as_array()
        .map(|arr| {
            arr.iter()
                .map(|f| KnownFinding {
                    property: f["property"].as_str().unwrap_or("").to_string(),
                    signature: f["signature"].as_str().unwrap_or("").to_string(),
                    what: f["what"].as_str().unwrap_or("").to_string(),
                    status: f["status"].as_str().unwrap_or("").to_string(),
                })
                .collect()
        })
        .unwrap_or_default()
}

fn is_known(known: &[KnownFinding], id: &str, sig: &str) -> bool {
    known
        .iter()
        .any(|k| k.status == "open" && k.property == id && k.signature == sig)
}

/// run the property on one input, converting panics of the harness or the library into failures
pub fn run_case(prop: &Prop, bytes: &[u8], ctx: &Ctx) -> Verdict {
    match catch_unwind(AssertUnwindSafe(|| (prop.check)(bytes, ctx))) {
        Ok(v) => v,
        Err(payload) => {
            let text = if let Some(s) = payload.downcast_ref::<&str>() {
                s.to_string()
            } else if let Some(s) = payload.downcast_ref::<String>() {
                s.clone()
            } else {
                "non-string panic".to_string()
            };
            Verdict::fail(
                format!("{}/panic", prop.id),
                format!("unexpected panic while checking the case: {}", text),
            )
        }
    }
}

struct Watch {
    slots: Vec<Mutex<Option<(Instant, Vec<u8>)>>>,
}

/// replay the saved input in four fresh processes; true if at least one of them does not finish
/// within twice the watchdog either (a deadlock needs its schedule, so not every replay hangs;
/// a case that takes milliseconds exceeding 60 s here and 120 s there is not slowness)
fn confirm_hang(path: &Path, watchdog_s: u64) -> bool {
    let exe = match std::env::current_exe() {
        Ok(e) => e,
        Err(_) => return false,
    };
    let mut children: Vec<std::process::Child> = Vec::new();
    for _ in 0..4 {
        match std::process::Command::new(&exe)
            .arg("replay")
            .arg(path)
            .stdout(std::process::Stdio::null())
            .stderr(std::process::Stdio::null())
            .spawn()
        {
            Ok(c) => children.push(c),
            Err(_) => return false,
        }
    }
    let start = Instant::now();
    let limit = Duration::from_secs(2 * watchdog_s);
    let mut finished = vec![false; children.len()];
    while start.elapsed() < limit && !finished.iter().all(|f| *f) {
        std::thread::sleep(Duration::from_millis(500));
        for (c, f) in children.iter_mut().zip(finished.iter_mut()) {
            if let Ok(Some(_)) = c.try_wait() {
                *f = true;
            }
        }
    }
    for c in children.iter_mut() {
        let _ = c.kill();
        let _ = c.wait();
    }
    finished.iter().any(|f| !*f)
}

thread_local! {
    static NOTES: std::cell::RefCell<Option<Vec<String>>> = const { std::cell::RefCell::new(None) };
}

/// a line of the trace of a case; evaluated only while a case is being described for a sample or
/// a replay, never during the search
pub fn note(text: impl FnOnce() -> String) {
    NOTES.with(|n| {
        if let Some(v) = n.borrow_mut().as_mut() {
            v.push(text());
        }
    });
}

/// describe a case by running it once more with tracing on: the sample shows what was generated,
/// what was done with it and what came back
pub fn describe_by_running(check: fn(&[u8], &Ctx) -> Verdict, bytes: &[u8]) -> Value {
    NOTES.with(|n| *n.borrow_mut() = Some(Vec::new()));
    let ctx = Ctx { tier: Tier::Quick, seed: 1, strict: false, partition: 0 };
    let verdict = catch_unwind(AssertUnwindSafe(|| check(bytes, &ctx)));
    let notes = NOTES.with(|n| n.borrow_mut().take()).unwrap_or_default();
    let outcome = match verdict {
        Ok(Verdict::Pass { nontrivial, labels }) => format!("pass (non-trivial: {}; labels {:?})", nontrivial.is_some(), labels),
        Ok(Verdict::Discard(w)) => format!("discarded: {}", w),
        Ok(Verdict::Fail { sig, msg }) => format!("FAIL [{}] {}", sig, msg),
        Err(_) => "panicked".to_string(),
    };
    json!({"trace": notes, "outcome": outcome})
}

pub struct Outcome {
    pub stats: Stats,
    pub failures: Vec<Failure>,
    pub wall_s: f64,
}

pub fn explore(prop: &Prop, tier: Tier, seed: u64) -> Outcome {
    let start = Instant::now();
    let known = load_known();
    let cases_total = match tier {
        Tier::Quick => prop.cases_quick,
        Tier::Thorough => prop.cases_thorough,
    };
    let scale: f64 = std::env::var("VERIF_SCALE").ok().and_then(|s| s.parse().ok()).unwrap_or(1.0);
    let cases_total = ((cases_total as f64) * scale).ceil() as u32;
    let per_part = (cases_total + PARTITIONS as u32 - 1) / PARTITIONS as u32;
    let mut total = Stats::default();
    let mut failures: Vec<Failure> = Vec::new();

    // regression tier first
    let reg_dir = Path::new(&verif_dir()).join("regressions").join(prop.id);
    let mut reg_files: Vec<PathBuf> = std::fs::read_dir(&reg_dir)
        .map(|rd| rd.filter_map(|e| e.ok().map(|e| e.path())).collect())
        .unwrap_or_default();
    reg_files.sort();
    let ctx0 = Ctx {
        tier,
        seed,
        strict: false,
        partition: 0,
    };
    let mut regressions = 0u64;
    for file in reg_files {
        if file.extension().and_then(|e| e.to_str()) != Some("json") {
            continue;
        }
        let val: Value = match std::fs::read_to_string(&file).ok().and_then(|t| serde_json::from_str(&t).ok()) {
            Some(v) => v,
            None => continue,
        };
        let bytes = from_hex(val["bytes_hex"].as_str().unwrap_or(""));
        regressions += 1;
        total.evaluations += 1;
        if let Verdict::Fail { sig, msg } = run_case(prop, &bytes, &ctx0) {
            if is_known(&known, prop.id, &sig) {
                *total.known.entry(sig).or_insert(0) += 1;
            } else {
                failures.push(Failure {
                    sig,
                    msg: format!("regression input {} fails again: {}", file.display(), msg),
                    bytes,
                    extra: json!({"regression_file": file.display().to_string()}),
                });
            }
        }
    }
    total.extra.insert("regression_inputs_replayed".into(), json!(regressions));

    let watch = Watch {
        slots: (0..PARTITIONS).map(|_| Mutex::new(None)).collect(),
    };
    let done = AtomicBool::new(false);
    let shrink_total = AtomicU64::new(0);
    let results: Mutex<Vec<(Stats, Option<Failure>)>> = Mutex::new(Vec::new());
    std::thread::scope(|scope| {
        // watchdog
        scope.spawn(|| {
            while !done.load(Ordering::SeqCst) {
                std::thread::sleep(Duration::from_millis(500));
                for (part, slot) in watch.slots.iter().enumerate() {
                    let guard = slot.lock().unwrap();
                    if let Some((since, bytes)) = &*guard {
                        if since.elapsed() > Duration::from_secs(prop.watchdog_s) {
                            let sig = format!("{}/hang", prop.id);
                            let path = write_replay(prop.id, &sig, bytes, "case exceeded the watchdog", tier, seed, &json!({}));
                            if prop.hang_is_violation && confirm_hang(&path, prop.watchdog_s) {
                                println!(
                                    "  failure [{}]: a case did not finish within {} s and, replayed in four fresh processes, at least once did not finish within {} s either",
                                    sig,
                                    prop.watchdog_s,
                                    2 * prop.watchdog_s
                                );
                                println!("VIOLATION property={} replay={}", prop.id, path.display());
                                std::process::exit(1);
                            }
                            println!(
                                "INCONCLUSIVE property={} partition={} a case ran longer than {} s; input saved to {}",
                                prop.id,
                                part,
                                prop.watchdog_s,
                                path.display()
                            );
                            std::process::exit(2);
                        }
                    }
                }
            }
        });
        let mut handles = Vec::new();
        for part in 0..PARTITIONS {
            let known = &known;
            let watch = &watch;
            let results = &results;
            let shrink_total = &shrink_total;
            handles.push(scope.spawn(move || {
                let ctx = Ctx {
                    tier,
                    seed,
                    strict: false,
                    partition: part,
                };
                let stats_cell = std::cell::RefCell::new(Stats::default());
                let first_cell: std::cell::RefCell<Option<(String, String)>> = std::cell::RefCell::new(None);
                let config = Config {
                    cases: per_part,
                    failure_persistence: None,
                    rng_seed: RngSeed::Fixed(mix2(seed, part as u64 + 1000 * hash_bytes(prop.id.as_bytes()) % 1_000_003)),
                    max_shrink_iters: if tier == Tier::Quick { prop.shrink_iters } else { prop.shrink_iters * 8 },
                    max_global_rejects: u32::MAX,
                    ..Config::default()
                };
                let mut runner = TestRunner::new(config);
                let strat = proptest::collection::vec(proptest::num::u8::ANY, 0..prop.max_len);
                let res = runner.run(&strat, |bytes| {
                    let mut stats = stats_cell.borrow_mut();
                    let mut first_fail = first_cell.borrow_mut();
                    // a failure that is a time-out is not shrunk: every attempt would cost the
                    // whole time limit again
                    if let Some((sig, _)) = first_fail.as_ref() {
                        if sig.contains("timeout") {
                            return Ok(());
                        }
                    }
                    *watch.slots[part].lock().unwrap() = Some((Instant::now(), bytes.clone()));
                    let verdict = run_case(prop, &bytes, &ctx);
                    *watch.slots[part].lock().unwrap() = None;
                    match verdict {
                        Verdict::Pass { nontrivial, labels } => {
                            if first_fail.is_none() {
                                stats.evaluations += 1;
                                for l in labels {
                                    *stats.labels.entry(l).or_insert(0) += 1;
                                }
                                if let Some(key) = nontrivial {
                                    if stats.nontrivial.insert(key) && stats.sample_bytes.len() < 2 && bytes.len() < 400 {
                                        stats.sample_bytes.push(bytes.clone());
                                    }
                                }
                            }
                            Ok(())
                        }
                        Verdict::Discard(why) => {
                            if first_fail.is_none() {
                                stats.evaluations += 1;
                                *stats.discards.entry(why).or_insert(0) += 1;
                            }
                            Ok(())
                        }
                        Verdict::Fail { sig, msg } => {
                            if is_known(known, prop.id, &sig) {
                                if first_fail.is_none() {
                                    stats.evaluations += 1;
                                    *stats.known.entry(sig).or_insert(0) += 1;
                                }
                                return Ok(());
                            }
                            let first_sig = first_fail.as_ref().map(|(s, _)| s.clone());
                            match first_sig {
                                None => {
                                    stats.evaluations += 1;
                                    *first_fail = Some((sig.clone(), msg));
                                    Err(TestCaseError::fail(sig))
                                }
                                Some(first_sig) => {
                                    shrink_total.fetch_add(1, Ordering::Relaxed);
                                    if first_sig == sig {
                                        *first_fail = Some((sig.clone(), msg));
                                        Err(TestCaseError::fail(sig))
                                    } else {
                                        // a different failure met while shrinking: do not follow it
                                        Ok(())
                                    }
                                }
                            }
                        }
                    }
                });
                let failure = match res {
                    Ok(()) => None,
                    Err(TestError::Fail(_, bytes)) => {
                        // re-run the minimal input to get its message
                        let (sig, msg) = match run_case(prop, &bytes, &ctx) {
                            Verdict::Fail { sig, msg } => (sig, msg),
                            _ => first_cell.borrow().clone().unwrap_or(("unknown".into(), "flaky failure".into())),
                        };
                        Some(Failure {
                            sig,
                            msg,
                            bytes,
                            extra: json!({"partition": part}),
                        })
                    }
                    Err(TestError::Abort(why)) => Some(Failure {
                        sig: format!("{}/abort", prop.id),
                        msg: format!("proptest aborted: {}", why),
                        bytes: vec![],
                        extra: json!({"partition": part}),
                    }),
                };
                results.lock().unwrap().push((stats_cell.into_inner(), failure));
            }));
        }
        for h in handles {
            let _ = h.join();
        }
        done.store(true, Ordering::SeqCst);
    });
    for (stats, failure) in results.into_inner().unwrap() {
        total.merge(stats);
        if let Some(f) = failure {
            failures.push(f);
        }
    }
    if let Some(post) = prop.post {
        let ctx = Ctx {
            tier,
            seed,
            strict: false,
            partition: 0,
        };
        for f in post(&ctx, &mut total) {
            if is_known(&known, prop.id, &f.sig) {
                *total.known.entry(f.sig.clone()).or_insert(0) += 1;
            } else {
                failures.push(f);
            }
        }
    }
    total
        .extra
        .insert("shrink_steps".into(), json!(shrink_total.load(Ordering::Relaxed)));
    Outcome {
        stats: total,
        failures,
        wall_s: start.elapsed().as_secs_f64(),
    }
}

pub fn write_replay(id: &str, sig: &str, bytes: &[u8], msg: &str, tier: Tier, seed: u64, extra: &Value) -> PathBuf {
    let dir = Path::new(&verif_dir()).join("replays").join(id);
    let _ = std::fs::create_dir_all(&dir);
    let clean: String = sig
        .chars()
        .map(|c| if c.is_ascii_alphanumeric() || c == '-' { c } else { '_' })
        .collect();
    let path = dir.join(format!("{}-{:016x}.json", clean, hash_bytes(bytes)));
    let val = json!({
        "property": id,
        "signature": sig,
        "tier": tier.name(),
        "seed": seed,
        "bytes_hex": to_hex(bytes),
        "message": msg,
        "extra": extra,
    });
    let _ = std::fs::write(&path, serde_json::to_string_pretty(&val).unwrap());
    path
}

pub fn write_evidence(prop: &Prop, tier: Tier, seed: u64, out: &Outcome, violations: usize) {
    let dir = Path::new(&verif_dir()).join("evidence");
    let _ = std::fs::create_dir_all(&dir);
    let mut samples: Vec<Value> = Vec::new();
    let mut sample_bytes = out.stats.sample_bytes.clone();
    sample_bytes.sort_by_key(|b| b.len());
    // a few short and a few long ones
    let picks: Vec<usize> = if sample_bytes.len() <= 5 {
        (0..sample_bytes.len()).collect()
    } else {
        let n = sample_bytes.len();
        vec![0, n / 4, n / 2, 3 * n / 4, n - 1]
    };
    for i in picks {
        let b = &sample_bytes[i];
        let described = catch_unwind(AssertUnwindSafe(|| (prop.describe)(b))).unwrap_or(json!("undescribable"));
        samples.push(json!({"bytes_hex": to_hex(b), "case": described}));
    }
    for s in out.stats.extra_samples.iter().take(8) {
        samples.push(s.clone());
    }
    if samples.is_empty() {
        samples.push(json!({"note": "no non-trivial case short enough to print was met"}));
    }
    let mut coverage = serde_json::Map::new();
    coverage.insert("evaluations".into(), json!(out.stats.evaluations));
    coverage.insert("distinct_nontrivial".into(), json!(out.stats.nontrivial.len()));
    coverage.insert("rule".into(), json!(prop.rule));
    coverage.insert("samples".into(), json!(samples));
    coverage.insert("exhaustive".into(), json!(false));
    coverage.insert("labels".into(), json!(out.stats.labels));
    coverage.insert("discards".into(), json!(out.stats.discards));
    coverage.insert("known_findings_suppressed".into(), json!(out.stats.known));
    coverage.insert("partitions".into(), json!(PARTITIONS));
    for (k, v) in out.stats.extra.iter() {
        coverage.insert(k.clone(), v.clone());
    }
    let val = json!({
        "property_id": prop.id,
        "tier": tier.name(),
        "seed": seed,
        "level": "exploration",
        "coverage": Value::Object(coverage),
        "assumptions": prop.assumptions,
        "wall_s": out.wall_s,
        "violations": violations,
    });
    let path = dir.join(format!("{}.json", prop.id));
    std::fs::write(&path, serde_json::to_string_pretty(&val).unwrap()).expect("cannot write evidence");
}

/// full check of one property; returns the process exit code
pub fn check(prop: &Prop, tier: Tier, seed: u64) -> i32 {
    let out = explore(prop, tier, seed);
    let known = load_known();
    // one failure per signature
    let mut by_sig: BTreeMap<String, Failure> = BTreeMap::new();
    for f in out.failures.iter() {
        let entry = by_sig.entry(f.sig.clone()).or_insert_with(|| f.clone());
        if f.bytes.len() < entry.bytes.len() {
            *entry = f.clone();
        }
    }
    for (sig, count) in out.stats.known.iter() {
        let what = known
            .iter()
            .find(|k| k.property == prop.id && &k.signature == sig)
            .map(|k| k.what.clone())
            .unwrap_or_default();
        println!("KNOWN-FINDING: property={} {} [{}; {} cases]", prop.id, what, sig, count);
    }
    write_evidence(prop, tier, seed, &out, by_sig.len());
    println!(
        "{} {} seed={} evaluations={} distinct_nontrivial={} discards={:?} wall={:.1}s",
        prop.id,
        tier.name(),
        seed,
        out.stats.evaluations,
        out.stats.nontrivial.len(),
        out.stats.discards,
        out.wall_s
    );
    if by_sig.is_empty() {
        0
    } else {
        for (sig, f) in by_sig.iter() {
            let path = write_replay(prop.id, sig, &f.bytes, &f.msg, tier, seed, &f.extra);
            println!("  failure [{}]: {}", sig, f.msg);
            println!("VIOLATION property={} replay={}", prop.id, path.display());
        }
        1
    }
}

pub fn replay(props: &[Prop], path: &str) -> i32 {
    let text = std::fs::read_to_string(path).expect("cannot read replay file");
    let val: Value = serde_json::from_str(&text).expect("replay file is not JSON");
    let id = val["property"].as_str().expect("replay file lacks property");
    let prop = props.iter().find(|p| p.id == id).expect("unknown property in replay file");
    let bytes = from_hex(val["bytes_hex"].as_str().unwrap_or(""));
    let tier = if val["tier"].as_str() == Some("thorough") { Tier::Thorough } else { Tier::Quick };
    let ctx = Ctx {
        tier,
        seed: val["seed"].as_u64().unwrap_or(1),
        strict: true,
        partition: 0,
    };
    println!("case: {}", serde_json::to_string(&(prop.describe)(&bytes)).unwrap_or_default());
    match run_case(prop, &bytes, &ctx) {
        Verdict::Fail { sig, msg } => {
            println!("  failure [{}]: {}", sig, msg);
            println!("VIOLATION property={} replay={}", id, path);
            1
        }
        other => {
            println!("replay passes: {:?}", other);
            0
        }
    }
}

// ---------------------------------------------------------------------------------------------
// libFuzzer side (thorough tier of the in-process, single-threaded properties)

/// properties whose check function is a pure, single-threaded function of the input bytes
pub const FUZZABLE: [&str; 9] = ["C01", "C08", "C09", "C11", "C12", "C13", "C14", "C18", "C19"];

struct FuzzState {
    prop: Prop,
    known: Vec<KnownFinding>,
    ctx: Ctx,
    stats_path: PathBuf,
    runs: u64,
    passes: u64,
    discards: u64,
    known_hits: BTreeMap<String, u64>,
    nontrivial: HashSet<u64>,
    labels: BTreeMap<&'static str, u64>,
}

fn fuzz_state() -> &'static Mutex<FuzzState> {
    static STATE: std::sync::OnceLock<Mutex<FuzzState>> = std::sync::OnceLock::new();
    STATE.get_or_init(|| {
        // libfuzzer-sys installs a hook that aborts on every panic; the properties observe
        // library panics themselves (some are documented behaviour), so replace it
        std::panic::set_hook(Box::new(|_| {}));
        let id = std::env::var("VERIF_FUZZ_PROP").expect("set VERIF_FUZZ_PROP to a property id");
        let prop = crate::props::all()
            .into_iter()
            .find(|p| p.id == id)
            .expect("unknown property id in VERIF_FUZZ_PROP");
        assert!(FUZZABLE.contains(&prop.id), "property {} is not fuzzed in-process", prop.id);
        let seed: u64 = std::env::var("VERIF_SEED").ok().and_then(|s| s.parse().ok()).unwrap_or(1);
        let stats_path = PathBuf::from(std::env::var("VERIF_FUZZ_STATS").unwrap_or_else(|_| format!("{}/target/fuzz-stats-{}.json", verif_dir(), id)));
        Mutex::new(FuzzState {
            prop,
            known: load_known(),
            ctx: Ctx { tier: Tier::Thorough, seed, strict: false, partition: 0 },
            stats_path,
            runs: 0,
            passes: 0,
            discards: 0,
            known_hits: BTreeMap::new(),
            nontrivial: HashSet::new(),
            labels: BTreeMap::new(),
        })
    })
}

fn fuzz_write_stats(st: &FuzzState) {
    let val = json!({
        "runs": st.runs, "passes": st.passes, "discards": st.discards,
        "distinct_nontrivial": st.nontrivial.len(), "known": st.known_hits, "labels": st.labels,
    });
    let _ = std::fs::write(&st.stats_path, serde_json::to_string(&val).unwrap());
}

/// body of the libFuzzer target
pub fn fuzz_one(data: &[u8]) {
    let mut st = fuzz_state().lock().unwrap();
    if data.len() > st.prop.max_len {
        return;
    }
    st.runs += 1;
    let verdict = run_case(&st.prop, data, &st.ctx);
    match verdict {
        Verdict::Pass { nontrivial, labels } => {
            st.passes += 1;
            if let Some(k) = nontrivial {
                st.nontrivial.insert(k);
            }
            for l in labels {
                *st.labels.entry(l).or_insert(0) += 1;
            }
        }
        Verdict::Discard(_) => st.discards += 1,
        Verdict::Fail { sig, msg } => {
            if is_known(&st.known, st.prop.id, &sig) {
                *st.known_hits.entry(sig).or_insert(0) += 1;
            } else {
                fuzz_write_stats(&st);
                let path = write_replay(st.prop.id, &sig, data, &msg, Tier::Thorough, st.ctx.seed, &json!({"engine": "libfuzzer"}));
                println!("  failure [{}]: {}", sig, msg);
                println!("VIOLATION property={} replay={}", st.prop.id, path.display());
                use std::io::Write;
                let _ = std::io::stdout().flush();
                std::process::abort();
            }
        }
    }
    if st.runs % 5_000 == 0 {
        fuzz_write_stats(&st);
    }
}

/// starting corpus for the fuzzer: the committed regression inputs plus generated byte strings
pub fn emit_corpus(prop: &Prop, dir: &str, seed: u64, count: usize) {
    let _ = std::fs::create_dir_all(dir);
    let reg_dir = Path::new(&verif_dir()).join("regressions").join(prop.id);
    let mut n = 0;
    if let Ok(rd) = std::fs::read_dir(&reg_dir) {
        for e in rd.filter_map(|e| e.ok()) {
            if let Some(val) = std::fs::read_to_string(e.path()).ok().and_then(|t| serde_json::from_str::<Value>(&t).ok()) {
                let bytes = from_hex(val["bytes_hex"].as_str().unwrap_or(""));
                let _ = std::fs::write(Path::new(dir).join(format!("regression-{}", n)), bytes);
                n += 1;
            }
        }
    }
    for k in 0..count {
        let mut state = mix2(seed, 555_000 + k as u64);
        let len = 8 + (state % (prop.max_len as u64 - 8)) as usize;
        let bytes: Vec<u8> = (0..len)
            .map(|_| {
                state = crate::stream::mix(state);
                (state >> 24) as u8
            })
            .collect();
        let _ = std::fs::write(Path::new(dir).join(format!("generated-{}", k)), bytes);
    }
}

/// fold the fuzzing stage into the evidence file the proptest stage wrote: `stats` are the
/// per-process files written by `fuzz_one`, `logs` the libFuzzer logs
pub fn merge_fuzz(id: &str, stats: &[String], logs: &[String], wall_s: f64, violations: u64) {
    let path = Path::new(&verif_dir()).join("evidence").join(format!("{}.json", id));
    let mut ev: Value = serde_json::from_str(&std::fs::read_to_string(&path).expect("evidence of the proptest stage missing")).unwrap();
    let mut runs = 0u64;
    let mut nontrivial = 0u64;
    let mut discards = 0u64;
    let mut labels: BTreeMap<String, u64> = BTreeMap::new();
    for f in stats {
        if let Some(v) = std::fs::read_to_string(f).ok().and_then(|t| serde_json::from_str::<Value>(&t).ok()) {
            runs += v["runs"].as_u64().unwrap_or(0);
            nontrivial += v["distinct_nontrivial"].as_u64().unwrap_or(0);
            discards += v["discards"].as_u64().unwrap_or(0);
            if let Some(m) = v["labels"].as_object() {
                for (k, x) in m {
                    *labels.entry(k.clone()).or_insert(0) += x.as_u64().unwrap_or(0);
                }
            }
        }
    }
    let mut cov = 0u64;
    let mut ft = 0u64;
    let mut corp = 0u64;
    for f in logs {
        if let Ok(text) = std::fs::read_to_string(f) {
            for line in text.lines().rev() {
                if line.contains(" cov: ") {
                    let grab = |key: &str| -> u64 {
                        line.split(key).nth(1).and_then(|r| r.trim().split(|c: char| !c.is_ascii_digit()).next().map(|d| d.parse().unwrap_or(0))).unwrap_or(0)
                    };
                    cov = cov.max(grab(" cov: "));
                    ft = ft.max(grab(" ft: "));
                    corp = corp.max(grab(" corp: "));
                    break;
                }
            }
        }
    }
    let c = ev["coverage"].as_object_mut().unwrap();
    let base = c["evaluations"].as_u64().unwrap_or(0);
    c.insert("evaluations".into(), json!(base + runs));
    c.insert(
        "libfuzzer_stage".into(),
        json!({
            "processes": stats.len(), "runs": runs, "discards": discards,
            "nontrivial_cases_summed_over_processes_not_added_to_distinct_nontrivial": nontrivial,
            "edge_coverage": cov, "features": ft, "corpus_units": corp, "labels": labels, "wall_s": wall_s,
            "note": "coverage-guided search over the same choice-stream decoder with the same property function (oracle in-target); libFuzzer's -seed and -runs pin a campaign only approximately",
        }),
    );
    let w = ev["wall_s"].as_f64().unwrap_or(0.0);
    ev["wall_s"] = json!(w + wall_s);
    let v = ev["violations"].as_u64().unwrap_or(0);
    ev["violations"] = json!(v + violations);
    std::fs::write(&path, serde_json::to_string_pretty(&ev).unwrap()).expect("cannot write evidence");
}
