#![no_main]
//! One libFuzzer target for every in-process, single-threaded property: the input bytes are the
//! same choice stream the proptest runner feeds to the property function, and the semantic oracle
//! runs inside the target. The property is selected with VERIF_FUZZ_PROP.
use libfuzzer_sys::fuzz_target;

fuzz_target!(|data: &[u8]| {
    verif_harness::runner::fuzz_one(data);
});
