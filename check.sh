#!/bin/bash
# usage: ./check.sh --setup | ./check.sh --replay <path> | ./check.sh <ID> [quick|thorough]
# exit 0: property held on everything explored; 1: VIOLATION line printed; 2: inconclusive
set -u
cd "$(dirname "$0")"
export CARGO_NET_OFFLINE=true
export RUST_BACKTRACE=0
HARNESS_DIR=/verif/harness
BIN=/verif/target/harness/release/verif-harness
CLI_TARGET=/verif/target/cli

build_harness() {
    # rebuilds /repo (path dependency, feature verif-hooks) from its current working tree
    if ! (cd "$HARNESS_DIR" && cargo build --release --offline >/verif/target/harness-build.log 2>&1); then
        mkdir -p /verif/target
        echo "INCONCLUSIVE: the harness (or /repo with verif-hooks) does not build; see /verif/target/harness-build.log"
        tail -n 30 /verif/target/harness-build.log
        exit 2
    fi
}

build_cli() {
    # the production binary: default features, hooks compiled out
    if ! cargo build --release --offline --bin cfr --manifest-path /repo/Cargo.toml --target-dir "$CLI_TARGET" >/verif/target/cli-build.log 2>&1; then
        echo "INCONCLUSIVE: the cfr binary does not build; see /verif/target/cli-build.log"
        tail -n 30 /verif/target/cli-build.log
        exit 2
    fi
}

mkdir -p /verif/target /verif/evidence
case "${1:-}" in
    --setup)
        build_harness
        build_cli
        echo "setup ok"
        exit 0
        ;;
    --replay)
        build_harness
        build_cli
        exec "$BIN" replay "$2"
        ;;
    "")
        echo "usage: $0 --setup | --replay <path> | <ID> [quick|thorough]"
        exit 2
        ;;
esac
ID="$1"
TIER="${2:-${VERIF_TIER:-quick}}"
build_harness
case "$ID" in
    C15|C16|C17) build_cli ;;
esac
exec "$BIN" check "$ID" --tier "$TIER"
