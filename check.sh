#!/bin/bash
# usage: ./check.sh --setup | ./check.sh --replay <path> | ./check.sh <ID> [quick|thorough]
# exit 0: property held on everything explored; 1: VIOLATION line printed; 2: inconclusive
set -u
cd "$(dirname "$0")"
# everything is relative to where this script lives: /verif for the registered commands, a
# snapshot directory under `vp run` (which then gets its own build output and evidence)
ROOT="$(pwd -P)"
if [ "$ROOT" != /verif ]; then
    export VERIF_HOME="$ROOT"
fi
export CARGO_NET_OFFLINE=true
export RUST_BACKTRACE=0
HARNESS_DIR=$ROOT/harness
BIN=$ROOT/target/harness/release/verif-harness
CLI_TARGET=$ROOT/target/cli
FUZZ_BIN=$ROOT/target/fuzz/x86_64-unknown-linux-gnu/release/prop

build_harness() {
    # rebuilds /repo (path dependency, feature verif-hooks) from its current working tree
    if ! (cd "$HARNESS_DIR" && CARGO_TARGET_DIR=$ROOT/target/harness cargo build --release --offline >$ROOT/target/harness-build.log 2>&1); then
        mkdir -p $ROOT/target
        echo "INCONCLUSIVE: the harness (or /repo with verif-hooks) does not build; see $ROOT/target/harness-build.log"
        tail -n 30 $ROOT/target/harness-build.log
        exit 2
    fi
}

build_cli() {
    # the production binary: default features, hooks compiled out
    if ! cargo build --release --offline --bin cfr --manifest-path /repo/Cargo.toml --target-dir "$CLI_TARGET" >$ROOT/target/cli-build.log 2>&1; then
        echo "INCONCLUSIVE: the cfr binary does not build; see $ROOT/target/cli-build.log"
        tail -n 30 $ROOT/target/cli-build.log
        exit 2
    fi
}

build_fuzz() {
    # libFuzzer target (coverage instrumentation, debug assertions on, no sanitizer: cfr has no
    # unsafe code and the address sanitizer costs a factor 12 here); rebuilds /repo as well
    (cd "$HARNESS_DIR/fuzz" && CARGO_TARGET_DIR=$ROOT/target/fuzz cargo +nightly fuzz build -s none >$ROOT/target/fuzz-build.log 2>&1)
}

# second engine of the thorough tier: coverage-guided search over the same choice stream with the
# same property function (oracle in-target), 16 processes with fixed run counts
fuzz_stage() {
    local id=$1 maxlen=$2
    local seed=${VERIF_SEED:-1}
    # runs per process: the cheap properties get more (about five minutes each on 16 cores)
    local default_runs=150000
    case "$id" in
        C13|C14|C18|C19) default_runs=1000000 ;;
        C08) default_runs=400000 ;;
    esac
    local runs=${VERIF_FUZZ_RUNS:-$default_runs}
    if ! build_fuzz; then
        echo "NOTE: libFuzzer stage skipped, its target does not build (see $ROOT/target/fuzz-build.log); the proptest stage stands alone"
        return 0
    fi
    local dir=$ROOT/target/fuzzrun/$id
    rm -rf "$dir"; mkdir -p "$dir/corpus"
    "$BIN" emit-corpus "$id" "$dir/corpus" 64
    local start=$(date +%s)
    local pids=()
    for i in $(seq 0 15); do
        VERIF_FUZZ_PROP=$id VERIF_FUZZ_STATS=$dir/stats-$i.json "$FUZZ_BIN" "$dir/corpus" \
            -runs=$runs -seed=$((seed * 100 + i + 1)) -len_control=0 -max_len=$maxlen -timeout=120 \
            -rss_limit_mb=3000 -max_total_time=1500 -artifact_prefix=$dir/artifact-$i- -print_final_stats=1 \
            >"$dir/log-$i.txt" 2>&1 &
        pids+=($!)
    done
    local bad=0
    for p in "${pids[@]}"; do
        wait "$p" || bad=$((bad + 1))
    done
    local wall=$(( $(date +%s) - start ))
    local nviol
    nviol=$(cat "$dir"/log-*.txt | grep -a '^VIOLATION' | sort -u | wc -l)
    "$BIN" merge-fuzz "$id" "$wall" "$dir" "$nviol"
    echo "$id libfuzzer stage: 16 processes x $runs runs, ${wall}s, $(cat "$dir"/log-*.txt | grep -a -c '^Done') finished, violations=$nviol"
    if [ "$nviol" -gt 0 ]; then
        cat "$dir"/log-*.txt | grep -a -E '^(  failure|VIOLATION)' | sort -u
        return 1
    fi
    if [ "$bad" -gt 0 ]; then
        echo "INCONCLUSIVE: $bad libFuzzer process(es) ended abnormally without a property violation (timeout, memory limit or crash of the harness); logs in $dir"
        grep -a -l -E 'ERROR: libFuzzer|deadly signal' "$dir"/log-*.txt | head -3
        return 2
    fi
    return 0
}

mkdir -p $ROOT/target $ROOT/evidence
case "${1:-}" in
    --setup)
        build_harness
        build_cli
        echo "setup ok"
        exit 0
        ;;
    --replay)
        build_harness
        build_cli
        exec "$BIN" replay "$2"
        ;;
    "")
        echo "usage: $0 --setup | --replay <path> | <ID> [quick|thorough]"
        exit 2
        ;;
esac
ID="$1"
TIER="${2:-${VERIF_TIER:-quick}}"
build_harness
case "$ID" in
    C15|C16|C17) build_cli ;;
esac
"$BIN" check "$ID" --tier "$TIER"
rc=$?
if [ "$rc" -eq 0 ] && [ "$TIER" = thorough ] && [ "${VERIF_NO_FUZZ:-0}" != 1 ]; then
    line=$("$BIN" fuzzable | grep "^$ID " || true)
    if [ -n "$line" ]; then
        fuzz_stage "$ID" "${line#* }"
        rc=$?
    fi
fi
exit $rc
