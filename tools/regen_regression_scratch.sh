#!/bin/bash
# usage: tools/regen_regression_scratch.sh <fix-commit> <ID> <name>
# Like regen_regression.sh, but never touches /repo: the fix is reverse-applied in a scratch worktree
# and the harness is built against it in a scratch directory (VERIF_HOME), as try_seed_scratch.sh does.
commit=$1; id=$2; name=$3
S=$(mktemp -d /tmp/vs_XXXXXX)
cleanup() { git -C /repo worktree remove --force $S/repo 2>/dev/null; rm -rf $S; }
trap cleanup EXIT
git -C /repo worktree add -q --detach $S/repo HEAD || exit 2
git -C /repo show $commit | git -C $S/repo apply -R || { echo "fix does not reverse-apply"; exit 3; }
mkdir -p $S/harness $S/evidence
rsync -a --exclude fuzz /verif/harness/ $S/harness/
sed -i "s#path = \"/repo\"#path = \"$S/repo\"#" $S/harness/Cargo.toml
printf '[net]\noffline = true\n[build]\ntarget-dir = "/tmp/vs_target/harness"\n' > $S/harness/.cargo/config.toml
cp /verif/known_findings.json $S/; mkdir -p $S/regressions
export CARGO_NET_OFFLINE=true RUST_BACKTRACE=0
(
  flock 9
  (cd $S/harness && cargo build --release --offline > $S/build.log 2>&1) || { echo "harness does not build"; tail -20 $S/build.log; exit 2; }
  cp /tmp/vs_target/harness/release/verif-harness $S/verif-harness
  cargo build --release --offline --bin cfr --manifest-path $S/repo/Cargo.toml --target-dir /tmp/vs_target/cli > $S/cli.log 2>&1 || { echo "cli does not build"; exit 2; }
  mkdir -p $S/target/cli/release; cp /tmp/vs_target/cli/release/cfr $S/target/cli/release/cfr
) 9>/tmp/vs_target.lock || exit 2
VERIF_HOME=$S $S/verif-harness check $id --tier quick > $S/out.log 2>&1
mkdir -p /verif/regressions/$id
n=0
for f in $S/replays/$id/*.json; do
  [ -f "$f" ] || continue
  n=$((n+1)); cp "$f" /verif/regressions/$id/$name-$n.json
done
echo "$id $name: $n replay files"; grep -E "failure" $S/out.log | head -5 | cut -c1-300
