#!/usr/bin/env python3
"""Regenerates /verif/MANIFEST.json from the table below (kept in one place so it stays valid)."""
import json, subprocess, os

CHECKS = {
 # id: (technique, level text, level note, design ref)
 "C01": ("property-based testing: generated games x profiles against an exhaustive pure-strategy best-response oracle (cross-checked with a sequence-form oracle); proptest shrinking",
         "Exploration: every generated (game, profile) pair is evaluated by the library and by two independent oracles (path enumeration; exhaustive best response over all pure strategies, cross-checked against a sequence-form best response). A mismatch beyond 1e-9 relative is a violation. Evidence, not proof; the exhaustive sub-family of the thorough tier enumerates a small finite space completely.",
         "Trusted: the harness's oracles (two structurally different best-response computations that must agree on every small case), IEEE arithmetic within 1e-9 relative.", "3/C01"),
}

def main():
    here = os.path.dirname(os.path.dirname(os.path.abspath(__file__)))
    props = [json.loads(l) for l in open(os.path.join(here, "properties.jsonl"))]
    pending_reason = "check not built yet in this snapshot (work in progress; see DESIGN.md section 3)"
    try:
        commits = subprocess.check_output(["git", "-C", "/repo", "log", "--format=%h %s", "a03fbdf..HEAD"], text=True).strip().splitlines()
    except Exception:
        commits = []
    hook_commits = [c.split()[0] for c in commits if "verif-hooks" in c or "verification hook" in c.lower()]
    manifest = {
        "version": 1,
        "setup_cmd": "./check.sh --setup",
        "hooks": {
            "guard": "verif-hooks (cargo feature of the cfr crate, off by default)",
            "enable": "the harness crate depends on cfr = { path = \"/repo\", default-features = false, features = [\"verif-hooks\"] }; C15-C17 use the production binary built with default features (hooks compiled out)",
            "baseline_off_cmd": "cd /repo && cargo nextest run --workspace --no-fail-fast --offline",
            "source_commits": hook_commits,
            "add_only": True,
        },
        "engines": [
            {"name": "verif-harness", "path": "/verif/harness", "serves_properties": sorted(CHECKS.keys()),
             "kind_free_text": "Rust binary: proptest TestRunner (library mode, fixed seeds, 16 fixed partitions) over a byte choice-stream decoder; independent oracles (path enumeration, exhaustive and sequence-form best response, contract validator, reference discounted CFR); shrinking to a minimal byte string that is the replay file"},
        ],
        "checks": [],
        "not_applicable": [],
        "notes": "exit 0 = held on everything explored; exit 1 + VIOLATION line; exit 2 = inconclusive (build failure, watchdog). VERIF_SEED seeds every partition. Known findings: /verif/known_findings.json.",
    }
    for p in props:
        pid = p["id"]
        if pid in CHECKS:
            tech, text, note, ref = CHECKS[pid]
            manifest["checks"].append({
                "property_id": pid,
                "quick_cmd": f"./check.sh {pid} quick",
                "thorough_cmd": f"./check.sh {pid} thorough",
                "evidence_file": f"/verif/evidence/{pid}.json",
                "replay_cmd_template": "./check.sh --replay {path}",
                "engine": "verif-harness",
                "level_claimed": {"category": "exploration", "text": text, "design_ref": f"DESIGN.md section {ref}"},
                "level_note": note,
                "technique": tech,
            })
        else:
            manifest["not_applicable"].append({"property_id": pid, "reason": pending_reason})
    json.dump(manifest, open(os.path.join(here, "MANIFEST.json"), "w"), indent=1)
    print("wrote MANIFEST.json with", len(manifest["checks"]), "checks")

if __name__ == "__main__":
    main()
