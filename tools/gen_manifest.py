#!/usr/bin/env python3
"""Regenerates /verif/MANIFEST.json from the table below (kept in one place so it stays valid)."""
import json, subprocess, os

CHECKS = {
 # id: (technique, level text, level note, design ref)
 "C01": ("property-based testing: generated games x profiles against an exhaustive pure-strategy best-response oracle (cross-checked with a sequence-form oracle); proptest shrinking",
         "Exploration: every generated (game, profile) pair is evaluated by the library and by two independent oracles (path enumeration; exhaustive best response over all pure strategies, cross-checked against a sequence-form best response). Half of the cases continue with an evaluation history (evaluate again, clone, re-import, truncate) on one Strategies object, re-checked after every step. A mismatch beyond 1e-9 relative is a violation. Evidence, not proof.",
         "Trusted: the harness's oracles (two structurally different best-response computations that must agree on every small case), IEEE arithmetic within 1e-9 relative.", "3/C01"),
 "C02": ("property-based testing: generated (game, T, threshold, threads) with vanilla Full solve; oracle = returned total bound >= true total regret from an independent best-response oracle; plus a hill-climbing (targeted PBT) search maximising regret/bound",
         "Exploration: the theorem's inequality is checked on every generated configuration, including thresholds placed at/around the bound values of the run and 2..16 threads; a targeted search pushes the ratio true/bound towards 1 so that a weakened bound is caught.",
         "Trusted: best-response oracle (cross-checked in C01); only the total bound is compared (the per-player inequality is not implied by the theorem).", "3/C02"),
 "C03": ("property-based testing: generated games (incl. adversarial families) x presets x log-uniform T x threads; oracle = the two envelopes of the statement evaluated with an independent regret oracle",
         "Exploration: the stated envelopes are validity predicates evaluated on every generated configuration; non-trivial cases are those where a do-nothing solver would fail the envelope.",
         "Trusted: best-response oracle; D, N, A computed by the harness from its own tree (N cross-checked with num_infosets()).", "3/C03"),
 "C04": ("property-based testing with seeded, replayable sampling (hook-seeded production samplers): per-case envelope with a majority-of-21 rerun rule, plus aggregate medians over a generated collection of games",
         "Exploration of a probabilistic claim: every run is reproducible from (case, sampling seed); an exceedance is a violation only if it persists in a majority of 21 independent sampling seeds; aggregate convergence is decided on medians over a fixed generated collection.",
         "Trusted: best-response oracle; decision rule error probabilities stated in DESIGN.md 3/C04.", "3/C04"),
 "C05": ("property-based testing / robustness fuzzing over (game, method, parameter tuple incl. +-inf, budget, threshold, thread count): oracle = no panic, documented errors only, returned profile satisfies the validity predicate, bounds well-formed",
         "Exploration: totality and well-formedness are validity predicates over the whole configuration space the constructor accepts (exponents up to +-1000 and +-inf, budgets from 0 to u64::MAX, thread counts up to usize::MAX); panics are caught and reported; a case that exceeds the 60 s watchdog is replayed in four fresh processes and reported as a violation if one of them hangs as well, otherwise as inconclusive.",
         "Trusted: the validity predicate (shared with C13); hang detection is bounded-time observation (60 s + 120 s on cases that take milliseconds).", "3/C05"),
 "C06": ("differential property-based testing: k-thread versus 1-thread Full solve on generated wide games, repeated runs under injected yields and oversubscription, comparison gated by a reference-model conditioning guard",
         "Exploration: the deterministic part of the parallel algorithm (how a traversal is cut into tasks, what state survives between iterations) is decided on every generated case; interleaving-dependent faults are sought statistically (repeats, yields, 16 concurrent pools).",
         "Trusted: single-thread result as the reference; the harness does not own rayon's scheduler.", "3/C06"),
 "C07": ("differential property-based testing with the sampling hook replacing every draw by a pure decision function: k-thread versus 1-thread Sampled/External solve, strategies, bounds and draw logs compared",
         "Exploration: thread invariance under fixed sampling decisions, including non-proportional decision functions (first/last/uniform/scripted) so that every positive-probability history shape can occur; draw logs must be the same set with at most one draw per infoset and pass.",
         "Trusted: the hook (additive, feature-gated); the harness does not own the scheduler.", "3/C07"),
 "C08": ("model-based property-based testing: an independent reference implementation of discounted CFR (full, chance-sampled, external-sampled) on the harness's abstract tree, fed the same sampling decisions, compared with the library's strategies",
         "Exploration against an executable specification: strategies must agree within 1e-6 at every infoset for generated (game, method, parameter tuple, T, decision function); preset constants and the default are compared with the documented tuples.",
         "Trusted: the reference model (self-tested on the pinned example and against the CFR bound); comparisons stop at the first iteration whose regret-matching branch is within 1e-9 of a discontinuity.", "3/C08"),
 "C09": ("property-based testing with a prefix-run oracle: solve(m,N,r) must equal bitwise the threshold-free run with budget t* computed from the bounds of all prefix runs; thresholds placed at, just below and just above every bound value; huge budgets (u64::MAX ...) and 2..8 threads compared with the one-thread prefix run",
         "Exploration: single-threaded runs under hook-fixed decisions are bit-deterministic, so the oracle is exact equality with the prefix run; boundary thresholds are generated with next_up/next_down.",
         "Trusted: determinism of single-threaded runs (re-checked in every case).", "3/C09"),
 "C10": ("property-based testing of the categorical sampler with a mock generator (chosen variates around every cumulative boundary), draw-log conformance against the reference model, and fixed-seed chi-square / martingale tests of the production samplers",
         "Exploration: (a) exact interval semantics of the sampler for generated weights and variates; (b) every recorded draw must be one the reference model expects, with the declared weights; (c) seeded distribution tests with alarm threshold p < 1e-10.",
         "Trusted: the hook reports the weights the sampler was constructed with; reference model as in C08.", "3/C10"),
 "C11": ("property-based testing with violation operators and label soup: an independent contract validator (MustAccept / MustReject(rules) / DontCare) as oracle; accepted trees are zipped against the harness's collapsed tree, evaluated and solved",
         "Exploration of the accept/reject boundary: valid games, valid games with 1-2 injected violations at generated places, random label soup, very wide nodes; both directions are checked (accepted iff valid; error names a violated rule); every tree is presented a second time through child iterators with inexact size hints and must be judged identically.",
         "Trusted: the validator's reading of the documented contract; stated don't-care zones.", "3/C11"),
 "C12": ("metamorphic property-based testing: a generated game versus a transformed presentation (renaming, chance rescaling, degenerate-node insertion/removal, payoff scaling/shift, player swap); evaluations and Full solves compared through the mapping",
         "Exploration of metamorphic relations: evaluation relations are continuous and compared within 1e-9 relative; solver relations within 1e-12 where no rounding changes, else 1e-6 under the conditioning guard.",
         "Trusted: the transformation code of the harness; conditioning guard.", "3/C12"),
 "C13": ("stateful property-based testing: generated profile plus an operation sequence (truncate, re-import, permuted re-import, clone) with a model profile; named view compared with the harness's infoset table; ExactSizeIterator::len() checked before every next()",
         "Exploration: completeness, consistency, round trip and iterator lengths at every prefix for generated games, profiles and histories.",
         "Trusted: the harness's infoset table (computed from its own tree).", "3/C13"),
 "C14": ("model-based property-based testing: generated named inputs with injected faults and duplicates against an independent model of the import rules; differential between from_named and from_named_eq",
         "Exploration: Ok iff the model says valid, probabilities = weight/total within 2 ulp, error kind in the model's set of violated rules, both import paths identical.",
         "Trusted: the model's reading of the documented rules (last write wins).", "3/C14"),
 "C15": ("property-based testing of the production binary: the harness generates an abstract constant-sum game, serialises it as JSON DSL or Gambit .efg with all presentation freedoms, runs the program and independently evaluates the printed strategies",
         "Exploration over files and option combinations (both encodings with all presentation freedoms, -o onto new and onto existing longer files); the oracle is an independent evaluation of the printed strategies on the abstract game with each player's own payoffs. Known finding F17 (JSON nesting limit) is reported by this check.",
         "Trusted: the harness's serialisers (the ground truth is the abstract game, not a second parser).", "3/C15"),
 "C16": ("differential property-based testing of the production binary against the library called directly with the parameters the options denote, across input routes/formats/destinations and JSON-versus-Gambit encodings (dyadic numbers, so arithmetic is exact)",
         "Exploration over option values and routes: printed strategies must equal the library's result for the denoted parameters within 1e-9; clip decisions are checked against an independent regret evaluation.",
         "Trusted: the harness's reading of the help text (option -> parameter mapping written out as a literal table).", "3/C16"),
 "C17": ("property-based fuzzing near valid files: generated valid JSON/Gambit files plus one semantic corruption with a known outcome; oracle = non-zero exit, no result object, diagnostic of the expected category; accepted controls must pass C15's predicate",
         "Exploration over corruption operators x positions x formats x routes; only corruptions whose invalidity follows from the README/DSL are generated, with must-accept controls on the tolerance boundary; payoff edits of any outcome (leaf, interior, shared by number) get their verdict from the harness's own evaluation of the file's structure by the documented constant-sum rule.",
         "Trusted: category keywords are loose alternatives per documented category.", "3/C17"),
 "C18": ("model-based property-based testing: per-infoset truncation model over generated profiles and thresholds placed at, just below and just above every probability; idempotence and validity checked",
         "Exploration: support, proportional rescaling (4 ulp), validity when nothing exceeds the threshold, no change below the smallest positive probability, truncating twice equals once.",
         "Trusted: the model; idempotence not asserted within 1e-9 relative of a probability.", "3/C18"),
 "C19": ("property-based testing of algebraic laws: range [0,1], identity, positivity, bitwise symmetry, and panics exactly for p <= 0 and for profiles of different games",
         "Exploration over generated games (incl. players without infosets), profile pairs (identical, near-identical, disjoint supports) and exponents.",
         "Trusted: positivity demanded only for differences > 1e-6 and p <= 10.", "3/C19"),
}

FUZZABLE = ["C01", "C08", "C09", "C11", "C12", "C13", "C14", "C18", "C19"]

def main():
    here = os.path.dirname(os.path.dirname(os.path.abspath(__file__)))
    props = [json.loads(l) for l in open(os.path.join(here, "properties.jsonl"))]
    pending_reason = "check not built yet in this snapshot (work in progress; see DESIGN.md section 3)"
    try:
        commits = subprocess.check_output(["git", "-C", "/repo", "log", "--format=%h %s", "a03fbdf..HEAD"], text=True).strip().splitlines()
    except Exception:
        commits = []
    hook_commits = [c.split()[0] for c in commits if "verif-hooks" in c or "verification hook" in c.lower()]
    manifest = {
        "version": 1,
        "setup_cmd": "./check.sh --setup",
        "hooks": {
            "guard": "verif-hooks (cargo feature of the cfr crate, off by default)",
            "enable": "the harness crate depends on cfr = { path = \"/repo\", default-features = false, features = [\"verif-hooks\"] }; C15-C17 use the production binary built with default features (hooks compiled out)",
            "baseline_off_cmd": "cd /repo && cargo nextest run --workspace --no-fail-fast --offline",
            "source_commits": hook_commits,
            "add_only": True,
        },
        "engines": [
            {"name": "libfuzzer-prop", "path": "/verif/harness/fuzz", "serves_properties": FUZZABLE,
             "kind_free_text": "cargo-fuzz / libFuzzer target (thorough tier only): coverage-guided mutation of the same choice-stream bytes, decoded by the same decoder and judged by the same property function inside the target; 16 processes with fixed -runs and -seed; failures are written as the same replay files"},
            {"name": "verif-harness", "path": "/verif/harness", "serves_properties": sorted(CHECKS.keys()),
             "kind_free_text": "Rust binary: proptest TestRunner (library mode, fixed seeds, 16 fixed partitions) over a byte choice-stream decoder; independent oracles (path enumeration, exhaustive and sequence-form best response, contract validator, reference discounted CFR); shrinking to a minimal byte string that is the replay file"},
        ],
        "checks": [],
        "not_applicable": [],
        "notes": "exit 0 = held on everything explored; exit 1 + VIOLATION line; exit 2 = inconclusive (build failure, watchdog). VERIF_SEED seeds every partition. Known findings: /verif/known_findings.json.",
    }
    for p in props:
        pid = p["id"]
        if pid in CHECKS:
            tech, text, note, ref = CHECKS[pid]
            manifest["checks"].append({
                "property_id": pid,
                "quick_cmd": f"./check.sh {pid} quick",
                "thorough_cmd": f"./check.sh {pid} thorough",
                "evidence_file": f"/verif/evidence/{pid}.json",
                "replay_cmd_template": "./check.sh --replay {path}",
                "engine": "verif-harness",
                "level_claimed": {"category": "exploration", "text": text, "design_ref": f"DESIGN.md section {ref}"},
                "level_note": note,
                "technique": tech + ("; thorough tier adds coverage-guided fuzzing (libFuzzer) of the same decoder and oracle" if pid in FUZZABLE else ""),
            })
        else:
            manifest["not_applicable"].append({"property_id": pid, "reason": pending_reason})
    json.dump(manifest, open(os.path.join(here, "MANIFEST.json"), "w"), indent=1)
    print("wrote MANIFEST.json with", len(manifest["checks"]), "checks")

if __name__ == "__main__":
    main()
