#!/bin/bash
# usage: tools/try_seed.sh <patch.diff> <tier> <check ids...>
# Applies a seeded change to /repo's working tree, runs the listed checks, restores /repo.
patch=$1; tier=$2; shift 2
cd /verif
git -C /repo diff --quiet || { echo "/repo has local changes"; exit 2; }
git -C /repo apply $patch || { echo "patch does not apply"; exit 3; }
for id in "$@"; do
  out=$(./check.sh $id $tier 2>&1); rc=$?
  echo "$id rc=$rc $(echo "$out" | grep -c '^VIOLATION') violations: $(echo "$out" | grep 'failure \[' | head -3 | cut -c1-260)"
done
git -C /repo checkout -- .
