#!/bin/bash
# usage: tools/try_seed_scratch.sh <patch.diff> <tier> <check ids...>
# Like try_seed.sh, but never touches /repo: the change is applied in a scratch worktree and the
# harness is built against it in a scratch directory (VERIF_HOME), so it can run next to anything
# that uses /repo and /verif. Everything is removed afterwards except the shared build cache.
patch=$1; tier=$2; shift 2
S=$(mktemp -d /tmp/vs_XXXXXX)
cleanup() { git -C /repo worktree remove --force $S/repo 2>/dev/null; rm -rf $S; }
trap cleanup EXIT
git -C /repo worktree add -q --detach $S/repo HEAD || exit 2
git -C $S/repo apply $patch || { echo "patch does not apply"; exit 3; }
mkdir -p $S/harness $S/evidence
rsync -a --exclude fuzz /verif/harness/ $S/harness/
sed -i "s#path = \"/repo\"#path = \"$S/repo\"#" $S/harness/Cargo.toml
printf '[net]\noffline = true\n[build]\ntarget-dir = "/tmp/vs_target/harness"\n' > $S/harness/.cargo/config.toml
cp /verif/known_findings.json $S/; ln -s /verif/regressions $S/regressions
export CARGO_NET_OFFLINE=true RUST_BACKTRACE=0
(
  flock 9
  (cd $S/harness && cargo build --release --offline > $S/build.log 2>&1) || { echo "harness does not build against the change"; tail -20 $S/build.log; exit 2; }
  cp /tmp/vs_target/harness/release/verif-harness $S/verif-harness
  need_cli=0; for id in "$@"; do case $id in C15|C16|C17) need_cli=1;; esac; done
  if [ $need_cli = 1 ]; then
    cargo build --release --offline --bin cfr --manifest-path $S/repo/Cargo.toml --target-dir /tmp/vs_target/cli > $S/cli.log 2>&1 || { echo "cli does not build"; exit 2; }
    mkdir -p $S/target/cli/release; cp /tmp/vs_target/cli/release/cfr $S/target/cli/release/cfr
  fi
) 9>/tmp/vs_target.lock || exit 2
for id in "$@"; do
  out=$(VERIF_HOME=$S $S/verif-harness check $id --tier $tier 2>&1); rc=$?
  echo "$id rc=$rc $(echo "$out" | grep -c '^VIOLATION') violations: $(echo "$out" | grep 'failure \[' | head -3 | cut -c1-260)"
done
