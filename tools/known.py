#!/usr/bin/env python3
"""Maintains /verif/known_findings.json (never written by a check at run time)."""
import json, sys, os
PATH = os.path.join(os.path.dirname(os.path.dirname(os.path.abspath(__file__))), "known_findings.json")
def load():
    try:
        return json.load(open(PATH))
    except FileNotFoundError:
        return {"format": "findings[]: property, signature (exact failure signature a check emits), status open|fixed, commit (for fixed), what, record (the line form required by the brief). Only status=open entries suppress anything, and only failures with exactly that signature.", "findings": []}
def main():
    d = load()
    status, prop, sig, commit, what = sys.argv[1:6]
    rec = f"fixed: property={prop} {commit} {what}" if status == "fixed" else f"open: property={prop} {what}"
    d["findings"] = [f for f in d["findings"] if not (f["property"] == prop and f["signature"] == sig)]
    d["findings"].append({"property": prop, "signature": sig, "status": status, "commit": commit, "what": what, "record": rec})
    json.dump(d, open(PATH, "w"), indent=1)
main()
