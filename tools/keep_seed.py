#!/usr/bin/env python3
"""usage: tools/keep_seed.py <ID> <X> <needs> <detected_by: 'C09:sig;C05:sig' or 'MISSED'> [note]
Copies a confirmed seeded change from /tmp/seed/out/<ID>/<X> to /verif/seeded/<ID>-<X>/ with meta.json."""
import sys, os, json, shutil, re
pid, x, needs, detected = sys.argv[1:5]
note = sys.argv[5] if len(sys.argv) > 5 else ""
src = os.environ.get("SEED_SRC", "/tmp/seed/out") + f"/{pid}/{x}"
dst = f"/verif/seeded/{pid}-{x}"
os.makedirs(dst, exist_ok=True)
for f in os.listdir(src):
    if f in ("validate.log",) or f.endswith(".tmp"):
        continue
    if os.path.isfile(os.path.join(src, f)) and os.path.getsize(os.path.join(src, f)) < 200_000:
        shutil.copy(os.path.join(src, f), os.path.join(dst, f))
val = open(os.path.join(src, "validate.log")).read().strip().splitlines()[-1]
m = re.search(r"clean_demo_rc=(\d+) suite_rc=(\d+) mutant_demo_rc=(\d+)", val)
meta = {
    "property": pid,
    "variant": x,
    "origin": "written by an independent sub-agent that saw only the property text and a scratch worktree of /repo",
    "needs_to_manifest": needs,
    "confirmed_by_me": {
        "how": "tools/validate_seed.sh in a scratch worktree outside /repo and /verif",
        "demo_on_unchanged_tree_rc": int(m.group(1)),
        "baseline_suite_with_change_rc": int(m.group(2)),
        "demo_with_change_rc": int(m.group(3)),
        "commands": ["cargo test --offline --test demo   (demo.rs copied to tests/demo.rs)", "git apply patch.diff", "cargo nextest run --workspace --no-fail-fast --offline", "cargo test --offline --test demo"],
    },
    "checks_run": "tools/try_seed_scratch.sh patch.diff quick <checks> (the change is applied in a scratch worktree and the harness built against it in a scratch directory; /repo untouched)",
    "detected_by": [] if detected == "MISSED" else [{"check": d.split(":", 1)[0], "signature": d.split(":", 1)[1] if ":" in d else ""} for d in detected.split(";")],
    "note": note,
}
json.dump(meta, open(os.path.join(dst, "meta.json"), "w"), indent=1)
print("kept", dst)
