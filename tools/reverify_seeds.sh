#!/bin/bash
# usage: tools/reverify_seeds.sh [dirs...]   re-runs, for every kept seeded change, the checks recorded as
# detecting it (scratch worktree + scratch harness; /repo untouched) and reports whether one still does
cd /verif
dirs=("$@"); [ ${#dirs[@]} -eq 0 ] && dirs=(seeded/*)
for d in "${dirs[@]}"; do
  checks=$(python3 -c "
import json,sys
m=json.load(open('$d/meta.json')); print(' '.join(sorted(set(x['check'] for x in m['detected_by']))))")
  out=$(tools/try_seed_scratch.sh /verif/$d/patch.diff quick $checks 2>&1)
  if echo "$out" | grep -q "rc=1"; then echo "$(basename $d) STILL-CAUGHT by $(echo "$out" | grep 'rc=1' | cut -d' ' -f1 | tr '\n' ' ')"; else echo "$(basename $d) NOT-CAUGHT: $(echo "$out" | tr '\n' ' ' | cut -c1-300)"; fi
done
