#!/bin/bash
# usage: tools/seed_sweep.sh <seeds...>   runs every quick check on the current tree with each seed
cd /verif
./check.sh --setup >/dev/null
for seed in "$@"; do
  for id in C01 C02 C03 C04 C05 C06 C07 C08 C09 C10 C11 C12 C13 C14 C15 C16 C17 C18 C19; do
    out=$(VERIF_SEED=$seed ./check.sh $id quick 2>&1); rc=$?
    echo "seed=$seed $id rc=$rc violations=$(echo "$out" | grep -c '^VIOLATION') $(echo "$out" | grep -v '^proptest' | grep -v KNOWN | tail -1 | cut -c1-160)"
    if [ $rc -ne 0 ]; then echo "$out" | grep -E "failure|VIOLATION|INCONCLUSIVE" | head -5; mkdir -p target/sweep-replays; cp -r replays/$id target/sweep-replays/ 2>/dev/null; fi
  done
done
