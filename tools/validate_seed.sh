#!/bin/bash
# usage: tools/validate_seed.sh <ID> <X>   (inputs in ${SEED_SRC:-/tmp/seed/out}/<ID>/<X>; scratch worktree ${SEED_WT:-/tmp/seed/wt_}<ID>)
# Confirms independently: suite passes with the change; demo passes without it; demo fails with it.
id=$1; x=$2
src=${SEED_SRC:-/tmp/seed/out}/$id/$x; wt=${SEED_WT:-/tmp/seed/wt_}$id
log=$src/validate.log
cd $wt || exit 2
git checkout -q -- . ; rm -rf tests/demo.rs
mkdir -p tests
{
echo "== clean demo"
cp $src/demo.rs tests/demo.rs
timeout 900 cargo test --offline --test demo 2>&1 | tail -5; clean_rc=${PIPESTATUS[0]}
rm -f tests/demo.rs
echo "== apply"
git apply $src/patch.diff || { echo "PATCH DOES NOT APPLY"; exit 3; }
echo "== suite with change"
timeout 1200 cargo nextest run --workspace --no-fail-fast --offline 2>&1 | tail -4; suite_rc=${PIPESTATUS[0]}
echo "== demo with change"
cp $src/demo.rs tests/demo.rs
timeout 900 cargo test --offline --test demo 2>&1 | tail -8; mut_rc=${PIPESTATUS[0]}
rm -f tests/demo.rs; rmdir tests 2>/dev/null
git checkout -q -- .
echo "RESULT $id $x clean_demo_rc=$clean_rc suite_rc=$suite_rc mutant_demo_rc=$mut_rc"
} > $log 2>&1
tail -1 $log
