#!/bin/bash
# Re-derives every committed regression input from the fix commits of /repo (see known_findings.json)
cd /verif
while read commit id name; do
  tools/regen_regression.sh $commit $id $name
done <<'LIST'
6338914 C13 D7-infoset-iterator-length
e56fb11 C13 D8-action-iterator-length
3c869ec C18 D9-no-action-above-threshold
6e778fc C19 D10-player-without-infosets
f9e0956 C19 D11-range
27b5705 C11 D4-single-and-multi-under-one-name
d431653 C11 D6-non-finite-payoff
9556ae8 C11 D5-forgotten-own-action
a08630c C05 D3-softmax-overflow
ebbd938 C06 D1-stale-frontier
90c4c9d C07 D2-stale-frontier-external
c32be8a C15 D12-player-two-utility
d9263b7 C17 D13-merged-infosets
d9263b7 C15 D13-merged-infosets
0aec9de C01 D16-zero-reach-infoset
LIST
./check.sh --setup
