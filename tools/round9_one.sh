#!/bin/bash
# usage: tools/round9_one.sh <ID> [extra check ids...]  -- validate /tmp/seed/out9/<ID>/K, then run the checks against it in scratch
id=$1; shift
export SEED_SRC=/tmp/seed/out9 SEED_WT=/tmp/seed/wt9_
/verif/tools/validate_seed.sh $id K
/verif/tools/try_seed_scratch.sh /tmp/seed/out9/$id/K/patch.diff quick $id "$@"
