#!/bin/bash
# usage: tools/regen_regression.sh <fix-commit> <ID> <name>
# Re-derives the shrunk regression input for a repaired defect: reverse-applies the fix in /repo's
# working tree, runs the quick check, keeps the replay file, restores /repo.
set -u
commit=$1; id=$2; name=$3
cd /verif
rm -rf replays/$id
git -C /repo diff --quiet || { echo "/repo has local changes"; exit 1; }
git -C /repo show $commit | git -C /repo apply -R || exit 1
./check.sh $id quick > /tmp/regen.log 2>&1
git -C /repo checkout -- .
mkdir -p regressions/$id
n=0
for f in replays/$id/*.json; do
  [ -f "$f" ] || continue
  n=$((n+1))
  cp "$f" regressions/$id/$name-$n.json
done
echo "$id $name: $n replay files"; grep -E "failure" /tmp/regen.log | head -5
rm -rf replays/$id
