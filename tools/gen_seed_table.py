#!/usr/bin/env python3
"""Rewrites the table of section 10.3 of DESIGN.md from /verif/seeded/*/meta.json."""
import json, glob, os, re
rows = []
for d in sorted(glob.glob('/verif/seeded/*')):
    m = json.load(open(os.path.join(d, 'meta.json')))
    checks = sorted(set(x['check'] for x in m['detected_by']))
    caught = ', '.join(checks) if checks else '**not caught**'
    clip = lambda s, n: (s[:n] + ' ...') if len(s) > n else s
    cell = lambda s: s.replace('|', '/').replace('\n', ' ')
    rows.append(f"| {m['property']}-{m['variant']} | {cell(clip(m['needs_to_manifest'], 260))} | {caught} | {cell(clip(m.get('note', ''), 420))} |")
text = open('/verif/DESIGN.md').read()
head = "| change | needs | caught by | remark |\n|--------|-------|-----------|--------|\n"
start = text.index(head)
end = text.index("\n### 10.4")
text = text[:start] + head + '\n'.join(rows) + '\n' + text[end:]
open('/verif/DESIGN.md', 'w').write(text)
n = len(rows); missed = sum('**not caught**' in r for r in rows)
print(n, 'changes,', missed, 'not caught')
